package main

import (
	"fmt"
	"go/constant"
	"go/token"
	"go/types"
	"strings"

	"golang.org/x/tools/go/ssa"
)

func init() {
	register("C16",
		"a bare name is looked up in the builtin table first and is otherwise the data-map entry of that name (with a nil error in both cases); `this` is the data map; the member reader returns (null, nil) on a null base before any reflection, reads maps with MapIndex and structs with FieldByName by the same key, and its result passes the nil normaliser; `x!.k` raises its error exactly on `IsNull(base) && Assert` before reading; the null test is true exactly for nil and nil pointers (truth table over reflect kinds); every value leaving the node dispatcher passes the normaliser, which maps Go int, int32, int64, float32, float64 to fresh numbers and returns every other value itself. A struct field that exists is read even when it holds its zero value. (reflect.Value).IsNil on the member looked up sits behind a Kind test; with the base evaluated and the member read, no error is returned unless `!.` meets null; two null-like operands are loosely equal.",
		"reflection value semantics (e.g. how a present-but-zero entry of a typed map is distinguished from a missing one).",
		runC16)
	register("C20",
		"which functions may touch the runner's two fields: the auxiliary store is accessed only by the constructor (which creates it), Set and Get; the data map field is stored only by SetThis (the caller's map itself) and by the entry setter, which creates a map when there is none and then stores exactly (key, value); it is read only by the identifier handler, the `this` literal and the entry setter; nothing flows between the two stores. A `$` assignment stores its value through the entry setter on every path, null included.",
		"agreement with the reference model over operation histories (replaying sequences is dynamic and is not attempted).",
		runC20)
}

// ---------- the null test (shared by C06 and C16) ----------

// nullDefinition folds IsNull over: nil interface; each reflect.Kind with IsNil true/false.
func nullDefinition(c *Ctx, rule string) {
	f := c.fn("IsNull")
	if !c.need(rule, f, "IsNull") {
		return
	}
	pos := c.P.Pos(f.Pos())
	p := f.Params[0]
	// nil interface
	r := c.foldWith(f, 1, pinTypeCase(p, "nil"))
	b, ok := boolResult(r, 0)
	c.R.Check(rule, "nil", pos, ok && b, "IsNull(nil) must be true")
	// kinds
	kinds := reflectKinds(c)
	for _, kn := range kinds {
		for _, isNil := range []bool{true, false} {
			r := c.foldWith(f, 1, pinTypeCase(p, "other"),
				pinCall("(reflect.Value).Kind", cInt(kn.val), nil),
				pinCall("(reflect.Value).IsNil", constant.MakeBool(isNil), nil))
			got, ok := boolResult(r, 0)
			want := kn.name == "Pointer" && isNil
			if kn.name != "Pointer" && !isNil {
				// one obligation per kind is enough for the non-nil case
				if !ok || got {
					c.R.Check(rule, fmt.Sprintf("kind:%s,isnil=%v", kn.name, isNil), pos, false, fmt.Sprintf("a non-nil value of kind %s must not be null", kn.name))
				}
				continue
			}
			c.R.Check(rule, fmt.Sprintf("kind:%s,isnil=%v", kn.name, isNil), pos, ok && got == want, fmt.Sprintf("IsNull of a %s value with IsNil=%v folds to %v (constant=%v), expected %v: exactly nil and nil pointers are null (a nil slice such as the value of `[]`, a nil map or a nil func is a value)", kn.name, isNil, got, ok, want))
		}
	}
	c.R.Floor(rule, 20)
}

type kindConst struct {
	name string
	val  int64
}

func reflectKinds(c *Ctx) []kindConst {
	var out []kindConst
	for _, p := range c.P.Pkgs {
		if p.PkgPath != "reflect" {
			continue
		}
		sc := p.Types.Scope()
		kt := sc.Lookup("Kind")
		if kt == nil {
			continue
		}
		for _, n := range sc.Names() {
			k, ok := sc.Lookup(n).(*types.Const)
			if !ok || !types.Identical(k.Type(), kt.Type()) {
				continue
			}
			v, _ := constant.Int64Val(constant.ToInt(k.Val()))
			if n == "Ptr" {
				continue // alias of Pointer
			}
			out = append(out, kindConst{n, v})
		}
	}
	return out
}

// ---------- C16 ----------

func runC16(c *Ctx) {
	d := c.EvalDispatcher()
	if d == nil {
		c.R.Add("C16.anchor", "ANCHOR-UNRESOLVED evaluator dispatcher", "-", Undecided, "not found")
		return
	}
	c16Lookup(c, d)
	c16NullSafe(c, d)
	nullDefinition(c, "C16.null-definition")
	c16Normalise(c, d)
	c16NilUnified(c, d, "C16.members-nil-unified")
	c16AssertOrigin(c)
	// Go integers and floats read from the data become numbers with exactly their value (shared with C04)
	if barms, und := c.binaryDispatch(); und == "" {
		c04NoFloat(c, barms, "C16.numbers-enter-exactly")
		// "typed nil pointers are ... equal to null" (shared with C05)
		c05EqualityAs(c, barms, "C16.null-like-values-are-equal")
	}
}

// c16AssertOrigin: the parser sets SelectorExpression.Assert from the selector token consumed for
// this very member access (not from a value carried over from an earlier iteration of the loop).
func c16AssertOrigin(c *Ctx) {
	const rule = "C16.assert-flag-origin"
	ro := c.Roles()
	if len(ro.Missing) > 0 || ro.MemberRest == nil {
		c.R.Undecided(rule, "parser roles", "-", "member-access parser not found")
		return
	}
	f := ro.MemberRest
	exdot := c.SK("SK_ExclamationDot")
	loops := naturalLoops(f)
	n := 0
	instrs(f, func(b *ssa.BasicBlock, i int, in ssa.Instruction) {
		st, ok := in.(*ssa.Store)
		if !ok {
			return
		}
		fa, ok := st.Addr.(*ssa.FieldAddr)
		if !ok || typeName(fa.X.Type()) != "SelectorExpression" || fieldName(fa) != "Assert" {
			return
		}
		n++
		good := false
		why := "the flag is " + describeValue(st.Val)
		if bo, isB := st.Val.(*ssa.BinOp); isB && bo.Op == token.NEQ && isNilConst(bo.Y) {
			good = true
			// every non-nil source is a conditional consumer of `!.` in this iteration; no loop-carried value
			seen := map[ssa.Value]bool{}
			var walk func(v ssa.Value)
			walk = func(v ssa.Value) {
				if seen[v] {
					return
				}
				seen[v] = true
				switch x := v.(type) {
				case *ssa.Phi:
					for _, l := range loops {
						if x.Block() == l.Header {
							good = false
							why = "the tested token is carried over from the previous iteration of the member-access loop: one `!.` makes every later `.` of the chain asserting"
						}
					}
					for _, e := range x.Edges {
						walk(e)
					}
				case *ssa.Const:
					if x.Value != nil {
						good = false
					}
				case *ssa.Call:
					okCall := false
					for _, a := range x.Call.Args {
						if k, isK := constIntArg(a); isK && k == exdot && typeName(a.Type()) == "SyntaxKind" {
							okCall = true
						}
					}
					if !okCall {
						good = false
						why = "the flag is derived from a call that does not consume `!.`"
					}
				default:
					good = false
				}
			}
			walk(bo.X)
		}
		if !good {
			// any other form (`assert := false; if !dot { if !exdot { break }; assert = true }`): decide by cases on what
			// the two conditional consumers return in this iteration, and require that nothing is loop-carried
			dot := c.SK("SK_Dot")
			scen := func(dotTaken, exTaken bool) (bool, bool) {
				r := c.foldWith(f, 0, pinNilTestOfConsumer(dot, !dotTaken), pinNilTestOfConsumer(exdot, !exTaken))
				lv := r.Val(st.Val)
				if k, isK := st.Val.(*ssa.Const); isK {
					lv = constOf(k)
				}
				if lv.K != lConst || lv.C.Kind() != constant.Bool {
					return false, false
				}
				return constant.BoolVal(lv.C), true
			}
			a, okA := scen(true, false)
			b2, okB := scen(false, true)
			carried := false
			seen := map[ssa.Value]bool{}
			var walk func(v ssa.Value)
			walk = func(v ssa.Value) {
				if seen[v] {
					return
				}
				seen[v] = true
				if phi, isPhi := v.(*ssa.Phi); isPhi {
					for _, l := range loops {
						if phi.Block() == l.Header {
							carried = true
						}
					}
					for _, e := range phi.Edges {
						walk(e)
					}
				}
				if bo, isB := v.(*ssa.BinOp); isB {
					walk(bo.X)
					walk(bo.Y)
				}
				if u, isU := v.(*ssa.UnOp); isU {
					walk(u.X)
				}
			}
			walk(st.Val)
			if okA && okB && !a && b2 && !carried {
				good = true
			} else if carried {
				why = "the flag depends on a value carried over from the previous iteration of the member-access loop: one `!.` makes every later `.` of the chain asserting"
			} else {
				why = fmt.Sprintf("with `.` consumed the flag is %v (decided=%v), with `!.` consumed it is %v (decided=%v); expected false / true", a, okA, b2, okB)
			}
		}
		c.R.Check(rule, "store#"+itoa(n), c.P.InstrPos(in), good, "Assert must be true exactly when this member access was written with `!.`; "+why)
	})
	c.R.Floor(rule, 1)
}

func c16Lookup(c *Ctx, d *Dispatcher) {
	const rule = "C16.lookup-order"
	h := d.Handlers["Identifier"]
	if !c.need(rule, h, "identifier handler") {
		return
	}
	pos := c.P.Pos(h.Pos())
	reg, _, _ := c.Registry()
	node := c.nodeParamOf(h, "Identifier")
	var load *ssa.Call
	instrs(h, func(b *ssa.BasicBlock, i int, in ssa.Instruction) {
		if call, ok := in.(*ssa.Call); ok {
			if cal := calleeOf(call); cal != nil && cal.String() == "(*sync.Map).Load" && call.Call.Args[0] == ssa.Value(reg) {
				load = call
			}
		}
	})
	if load == nil {
		c.R.Check(rule, "builtin-lookup", pos, false, "a bare name must first be looked up in the builtin table")
		return
	}
	// keyed by the identifier's name, in the entry block
	keyOK := false
	for _, rt := range plainOrigins.Roots(load.Call.Args[1]) {
		if rt.Kind == "param" && rt.V == ssa.Value(node) && len(rt.Path) == 1 && rt.Path[0] == "Value" {
			keyOK = true
		}
	}
	c.R.Check(rule, "builtin-lookup-key", c.P.InstrPos(load), keyOK && load.Block() == h.Blocks[0], "the builtin table must be consulted first, unconditionally, by the identifier's name")
	// found -> the builtin; not found -> r.this[name]; nil error both ways
	for _, found := range []bool{true, false} {
		okv := pinExtract(load, 1, constant.MakeBool(found))
		r := c.foldWith(h, 0, okv)
		good := len(r.Returns) > 0
		why := ""
		for _, ret := range r.Returns {
			if k, ok := ret.Results[1].(*ssa.Const); !ok || k.Value != nil {
				good = false
				why = "non-nil error"
			}
			rs := plainOrigins.Roots(ret.Results[0])
			for _, rt := range rs {
				if found {
					if !(rt.Kind == "call" && rt.V == ssa.Value(load) && rt.Idx == 0) {
						good = false
						why = "returns " + rt.String()
					}
				} else {
					if !(rt.Kind == "param" && typeName(rt.V.Type()) == "Runner" && len(rt.Path) == 2 && rt.Path[0] == "this" && rt.Path[1] == "[k]") {
						good = false
						why = "returns " + rt.String()
					}
				}
			}
			if !found {
				// indexed by the same name
				if lk, ok := ret.Results[0].(*ssa.Lookup); ok {
					idxOK := false
					for _, rt := range plainOrigins.Roots(lk.Index) {
						if rt.Kind == "param" && rt.V == ssa.Value(node) && len(rt.Path) == 1 && rt.Path[0] == "Value" {
							idxOK = true
						}
					}
					if !idxOK {
						good = false
						why = "data map indexed by something else than the name"
					}
				}
			}
		}
		c.R.Check(rule, fmt.Sprintf("builtin-found=%v", found), pos, good, fmt.Sprintf("when the name is%s a builtin the handler must return %s with a nil error; %s", map[bool]string{true: "", false: " not"}[found], map[bool]string{true: "the builtin", false: "the data-map entry of that name (null when absent)"}[found], why))
	}
	// `this`
	arms, und := c.literalDispatch()
	if und == "" {
		arm := arms[c.SK("SK_ThisKeyword")]
		good := arm.Present
		if good {
			control := c.nodeTokenFolder(c.SK("SK_Unknown")).Fold(d.Handlers["LiteralExpression"], makeBottoms(len(d.Handlers["LiteralExpression"].Params)))
			for _, ret := range arm.Fold.Returns {
				if control.Reach[ret.Block()] {
					continue
				}
				for _, rt := range plainOrigins.Roots(ret.Results[0]) {
					if !(rt.Kind == "param" && typeName(rt.V.Type()) == "Runner" && len(rt.Path) == 1 && rt.Path[0] == "this") {
						good = false
					}
				}
			}
		}
		c.R.Check(rule, "this-is-data-map", arm.Pos, good, "`this` must denote the runner's data map")
		for _, spec := range []struct {
			tok  string
			want string
		}{{"SK_TrueKeyword", "true"}, {"SK_FalseKeyword", "false"}, {"SK_NullKeyword", "nil"}} {
			a := arms[c.SK(spec.tok)]
			ok := a.Present
			if ok {
				control := c.nodeTokenFolder(c.SK("SK_Unknown")).Fold(d.Handlers["LiteralExpression"], makeBottoms(len(d.Handlers["LiteralExpression"].Params)))
				for _, ret := range a.Fold.Returns {
					if control.Reach[ret.Block()] {
						continue
					}
					v := ret.Results[0]
					if mi, isMI := v.(*ssa.MakeInterface); isMI {
						v = mi.X
					}
					if shortVal(v) != spec.want {
						ok = false
					}
				}
			}
			c.R.Check(rule, "literal:"+spec.tok, a.Pos, ok, "the literal "+spec.tok+" must evaluate to "+spec.want)
		}
	}
	c.R.Floor(rule, 7)
}

// pinExtract pins result #idx of one specific multi-value call.
func pinExtract(call *ssa.Call, idx int, val constant.Value) Pin {
	return func(v ssa.Value) (constant.Value, bool) {
		ex, ok := v.(*ssa.Extract)
		if !ok || ex.Tuple != ssa.Value(call) || ex.Index != idx {
			return nil, false
		}
		return val, true
	}
}

func c16NullSafe(c *Ctx, d *Dispatcher) {
	const rule = "C16.null-safe"
	h := d.Handlers["SelectorExpression"]
	if !c.need(rule, h, "selector handler") {
		return
	}
	pos := c.P.Pos(h.Pos())
	node := c.nodeParamOf(h, "SelectorExpression")
	isNull := c.fn("IsNull")
	// the member reader: module callee taking (value, string key) and returning (interface{}, error)
	var reader *ssa.Function
	var readCall *ssa.Call
	instrs(h, func(b *ssa.BasicBlock, i int, in ssa.Instruction) {
		call, ok := in.(*ssa.Call)
		if !ok {
			return
		}
		cal := calleeOf(call)
		if cal == nil || !c.inModule(cal) || cal == d.Fn || len(call.Call.Args) != 2 {
			return
		}
		for _, rt := range plainOrigins.Roots(call.Call.Args[1]) {
			if rt.Kind == "param" && rt.V == ssa.Value(node) && len(rt.Path) == 2 && rt.Path[0] == "Name" && rt.Path[1] == "Value" {
				reader, readCall = cal, call
			}
		}
	})
	if reader == nil {
		c.R.Check(rule, "member-reader", pos, false, "member access must read key Name.Value of the evaluated base through the member reader")
		return
	}
	// base evaluated first; reader gets the base value
	vs := c.visitsOf(h, d.Fn, node)
	var baseEval *ssa.Call
	for _, v := range vs {
		if v.Field == "Expression" {
			baseEval = v.Call
		}
	}
	c.R.Check(rule, "reads-evaluated-base", c.P.InstrPos(readCall), baseEval != nil && isResultOf(readCall.Call.Args[0], baseEval, 0), "the member reader must be applied to the evaluated base expression")
	// assert form: error exactly on IsNull(base) && Assert, before reading
	if baseEval != nil {
		for _, null := range []bool{true, false} {
			for _, assert := range []bool{true, false} {
				ps := []Pin{pinCallFn(isNull, constant.MakeBool(null), func(call *ssa.Call) bool { return isResultOf(call.Call.Args[0], baseEval, 0) }),
					pinNodeBoolField(node, "Assert", assert), pinExtractNil(baseEval, 1), pinExtractNil(readCall, 1)}
				r := c.foldWith(h, 0, ps...)
				reads := false
				for _, call := range r.ReachableCalls() {
					if call == ssa.CallInstruction(readCall) {
						reads = true
					}
				}
				allErr, anyErr := len(r.Returns) > 0, false
				for _, ret := range r.Returns {
					if foldedNil(r, ret.Results[1]) {
						allErr = false
					} else {
						anyErr = true
					}
				}
				wantErr := null && assert
				if !wantErr && anyErr && !allErr {
					// an error on some path although the base evaluated, the member read succeeded and no assertion
					// failed: `x!.k` refused for a reason other than x being null
					allErr = true
				}
				if null && !assert && !reads && len(r.Returns) > 0 {
					// `null.k`: answering null without reading is the same thing
					reads = true
					for _, ret := range r.Returns {
						if !isNilConst(ret.Results[0]) || !isNilConst(ret.Results[1]) {
							reads = false
						}
					}
				}
				c.R.Check(rule, fmt.Sprintf("assert-form:null=%v,assert=%v", null, assert), pos, allErr == wantErr && reads == !wantErr, fmt.Sprintf("base null=%v, `!.`=%v: error=%v (expected %v), member read=%v (expected %v): `x!.k` is an error exactly when x is null, plain `.` never is", null, assert, allErr, wantErr, reads, !wantErr))
			}
		}
	}
	// the result passes the nil normaliser
	normOK := false
	instrs(h, func(b *ssa.BasicBlock, i int, in ssa.Instruction) {
		ret, ok := in.(*ssa.Return)
		if !ok {
			return
		}
		if k, isK := ret.Results[1].(*ssa.Const); !isK || k.Value != nil {
			return
		}
		for _, rt := range plainOrigins.Roots(ret.Results[0]) {
			if rt.Kind == "call" && rt.Fn != nil && c.inModule(rt.Fn) {
				call := rt.V.(*ssa.Call)
				if len(call.Call.Args) == 1 && isResultOf(call.Call.Args[0], readCall, 0) && c.isNilNormaliser(rt.Fn) {
					normOK = true
				}
			}
		}
	})
	if !normOK {
		// judged on every path instead (written out as `if IsNull(v) { return nil, nil }; return v, nil`, or unified
		// inside the reader): C16.members-nil-unified
		normOK = c.nilUnifiedOK(d)
	}
	c.R.Check(rule, "result-nil-normalised", pos, normOK, "the value read must pass the nil normaliser (typed nil pointers become null)")
	// member reader: null base -> (nil, nil) before any reflection; kind arms
	rp := c.P.Pos(reader.Pos())
	vparam := reader.Params[0]
	r := c.foldWith(reader, 0, pinCallFn(isNull, cTrue, nil))
	good := len(r.Returns) > 0
	for _, ret := range r.Returns {
		for _, x := range ret.Results {
			if k, ok := x.(*ssa.Const); !ok || k.Value != nil {
				good = false
			}
		}
	}
	refl := false
	for _, call := range r.ReachableCalls() {
		if cal := calleeOf(call); cal != nil && strings.HasPrefix(cal.String(), "reflect.") || cal != nil && strings.HasPrefix(cal.String(), "(reflect.") {
			refl = true
		}
	}
	c.R.Check(rule, "reader:null-base", rp, good && !refl, "member access on null must yield (null, no error) without touching reflection")
	firstIsNull := false
	for _, in := range reader.Blocks[0].Instrs {
		if call, ok := in.(*ssa.Call); ok {
			if calleeOf(call) == isNull && stripIface(call.Call.Args[0]) == ssa.Value(vparam) {
				firstIsNull = true
			}
			break
		}
	}
	c.R.Check(rule, "reader:null-test-first", rp, firstIsNull, "the null test on the base must come first in the member reader")
	c16Kinds(c, reader)
	c.R.Floor(rule, 8)
}

func pinNodeBoolField(node *ssa.Parameter, field string, val bool) Pin {
	return func(v ssa.Value) (constant.Value, bool) {
		u, ok := v.(*ssa.UnOp)
		if !ok {
			return nil, false
		}
		fa, ok := u.X.(*ssa.FieldAddr)
		if !ok || fa.X != ssa.Value(node) || fieldName(fa) != field {
			return nil, false
		}
		return constant.MakeBool(val), true
	}
}

// pinExtractNil pins result #idx (an error) of a call to nil.
func pinExtractNil(call *ssa.Call, idx int) Pin {
	return func(v ssa.Value) (constant.Value, bool) {
		ex, ok := v.(*ssa.Extract)
		if !ok || ex.Tuple != ssa.Value(call) || ex.Index != idx {
			return nil, false
		}
		return constant.MakeUnknown(), true
	}
}

// isNilNormaliser: f(v) returns nil when IsNull(v) and v itself otherwise.
func (c *Ctx) isNilNormaliser(f *ssa.Function) bool {
	if len(f.Params) != 1 {
		return false
	}
	isNull := c.fn("IsNull")
	for _, null := range []bool{true, false} {
		r := c.foldWith(f, 0, pinCallFn(isNull, constant.MakeBool(null), nil))
		if len(r.Returns) == 0 {
			return false
		}
		for _, ret := range r.Returns {
			if null {
				if k, ok := ret.Results[0].(*ssa.Const); !ok || k.Value != nil {
					return false
				}
			} else if ret.Results[0] != ssa.Value(f.Params[0]) {
				return false
			}
		}
	}
	return true
}

func c16Kinds(c *Ctx, reader *ssa.Function) {
	const rule = "C16.kinds"
	rp := c.P.Pos(reader.Pos())
	key := reader.Params[1]
	kinds := reflectKinds(c)
	isNull := c.fn("IsNull")
	for _, kn := range kinds {
		if kn.name != "Map" && kn.name != "Struct" {
			continue
		}
		r := c.foldWith(reader, 0, pinCallFn(isNull, cFalse, nil), pinCall("Kind", cInt(kn.val), nil))
		var hit bool
		for _, call := range r.ReachableCalls() {
			cal := calleeOf(call)
			if cal == nil {
				// the field looked up in the type first: rt.FieldByName(key), then rv.FieldByIndex(sf.Index)
				if cc := call.Common(); kn.name == "Struct" && cc.IsInvoke() && cc.Method.Name() == "FieldByName" && len(cc.Args) == 1 && cc.Args[0] == ssa.Value(key) && strings.HasSuffix(cc.Value.Type().String(), "reflect.Type") {
					hit = true
				}
				continue
			}
			cc := call.Common()
			switch {
			case kn.name == "Map" && cal.String() == "(reflect.Value).MapIndex":
				// keyed by reflect.ValueOf(key)
				for _, rt := range plainOrigins.Roots(cc.Args[1]) {
					if rt.Kind == "call" && rt.Fn != nil && rt.Fn.String() == "reflect.ValueOf" {
						if stripIface(rt.V.(*ssa.Call).Call.Args[0]) == ssa.Value(key) {
							hit = true
						}
					}
				}
			case kn.name == "Struct" && cal.String() == "(reflect.Value).FieldByName":
				if cc.Args[1] == ssa.Value(key) {
					hit = true
				}
			}
		}
		c.R.Check(rule, "kind:"+kn.name, rp, hit, map[string]string{"Map": "a map base must be read with MapIndex(reflect.ValueOf(key))", "Struct": "a struct base must be read with FieldByName(key)"}[kn.name])
	}
	// a key that is present must be read even when its value is the zero value of the element type:
	// "missing" is an invalid reflect.Value, not a zero one
	for _, kn := range kinds {
		if kn.name != "Map" {
			continue
		}
		r := c.foldWith(reader, 0, pinCallFn(isNull, cFalse, nil), pinCall("Kind", cInt(kn.val), func(call *ssa.Call) bool { return call.Call.IsInvoke() }),
			pinCall("(reflect.Value).Kind", cInt(kn.val), nil), pinCall("(reflect.Value).IsValid", cTrue, nil), pinCall("(reflect.Value).IsZero", cTrue, nil), pinCall("(reflect.Value).IsNil", cFalse, nil),
			pinCall("AssignableTo", cTrue, nil), pinCall("ConvertibleTo", cTrue, nil), pinCall("(reflect.Value).CanInterface", cTrue, nil))
		readsIt := len(r.Returns) > 0
		for _, ret := range r.Returns {
			if isNilConst(ret.Results[0]) {
				readsIt = false
			}
		}
		c.R.Check(rule, "map-entry-present-with-zero-value", rp, readsIt, "a map entry that is present but holds the zero value of the element type (0 in a map[string]int, \"\" in a map[string]string, false) must be read as that value; the reader returns null for it because it treats IsZero() like a missing key")
	}
	c.structFieldRules(rule, reader, true)
	c16IsNilGuarded(c, rule, reader, kinds)
	// any other kind: (nil, nil)
	for _, kn := range kinds {
		if kn.name == "Map" || kn.name == "Struct" || kn.name == "Invalid" {
			continue
		}
		r := c.foldWith(reader, 0, pinCallFn(isNull, cFalse, nil), pinCall("Kind", cInt(kn.val), nil))
		good := len(r.Returns) > 0
		for _, ret := range r.Returns {
			for _, x := range ret.Results {
				if k, ok := x.(*ssa.Const); !ok || k.Value != nil {
					good = false
				}
			}
		}
		if !good {
			c.R.Check(rule, "kind:"+kn.name, rp, false, "member access on a "+kn.name+" value must yield null")
		}
	}
	c.R.Add(rule, "other-kinds-yield-null", rp, OK, "")
	c.R.Floor(rule, 3)
}

func c16Normalise(c *Ctx, d *Dispatcher) { c16NormaliseAs(c, d, "C16.normalise-everywhere", false) }

// c16NormaliseAs: timesOnly restricts the obligations to what dates rely on (a time.Time leaves the normaliser unchanged).
func c16NormaliseAs(c *Ctx, d *Dispatcher, rule string, timesOnly bool) {
	pos := c.P.Pos(d.Fn.Pos())
	// every nil-error return of the dispatcher is the normaliser's result
	var norm *ssa.Function
	good := true
	n := 0
	instrs(d.Fn, func(b *ssa.BasicBlock, i int, in ssa.Instruction) {
		ret, ok := in.(*ssa.Return)
		if !ok {
			return
		}
		if k, isK := ret.Results[1].(*ssa.Const); isK && k.Value == nil {
			good = false // a success return that bypasses the normaliser
			return
		}
		// (call#0, call#1) of one call
		rs0, rs1 := plainOrigins.Roots(ret.Results[0]), plainOrigins.Roots(ret.Results[1])
		if len(rs0) == 1 && len(rs1) == 1 && rs0[0].Kind == "call" && rs0[0].V == rs1[0].V && rs0[0].Fn != nil && c.inModule(rs0[0].Fn) {
			norm = rs0[0].Fn
			n++
			return
		}
		if k, isK := ret.Results[0].(*ssa.Const); isK && k.Value == nil {
			return // error return
		}
		good = false
	})
	c.R.Check(rule, "every-success-return-normalised", pos, good && norm != nil && n >= 1, "every value leaving the node dispatcher without error must be the normaliser's result")
	if norm == nil {
		return
	}
	c.R.Analysed["normaliser"] = c.P.FuncKey(norm)
	np := c.P.Pos(norm.Pos())
	v := norm.Params[0]
	// numeric kinds -> fresh decimals; everything else -> the value itself
	want := map[string]bool{}
	for _, k := range specNormalisedKinds {
		want[k] = true
	}
	arms, _ := typeSwitchArms(norm, v)
	seen := map[string]bool{}
	for _, a := range arms {
		seen[typeKey(a.Type)] = true
	}
	for _, k := range specNormalisedKinds {
		if timesOnly {
			break
		}
		r := c.foldWith(norm, 0, pinTypeCase(v, k))
		ok := seen[k] && len(r.Returns) > 0
		why := ""
		for _, ret := range r.Returns {
			fresh, w := c.isFreshDecimal(ret.Results[0])
			if !fresh {
				ok = false
				why = w
			}
			if kk, isK := ret.Results[1].(*ssa.Const); !isK || kk.Value != nil {
				ok = false
			}
		}
		c.R.Check(rule, "kind:"+k, np, ok, "a Go "+k+" must become a fresh formula number ("+why+")")
	}
	for _, k := range []string{"string", "bool", "time.Time", "other", "*decimal.Big", "[]interface{}"} {
		if timesOnly && k != "time.Time" {
			continue
		}
		r := c.foldWith(norm, 0, pinTypeCase(v, k))
		ok := len(r.Returns) > 0
		for _, ret := range r.Returns {
			if !c.derivedOnlyFromParam(ret.Results[0], v) && !(k == "*decimal.Big" && c.exactDecimalCopy(ret.Results[0], v)) {
				ok = false
			}
		}
		c.R.Check(rule, "unchanged:"+k, np, ok, "a "+k+" value must be handed on unchanged")
	}
	r := c.foldWith(norm, 0, pinTypeCase(v, "nil"))
	ok := len(r.Returns) > 0
	for _, ret := range r.Returns {
		if k, isK := ret.Results[0].(*ssa.Const); !isK || k.Value != nil {
			if !c.derivedOnlyFromParam(ret.Results[0], v) {
				ok = false
			}
		}
	}
	if timesOnly {
		c.R.Floor(rule, 2)
		return
	}
	c.R.Check(rule, "unchanged:nil", np, ok, "null stays null")
	c.R.Floor(rule, 11)
}

// derivedOnlyFromParam: v is parameter p itself, possibly re-boxed after a type assertion.
func (c *Ctx) derivedOnlyFromParam(v ssa.Value, p *ssa.Parameter) bool {
	rs := plainOrigins.Roots(v)
	if len(rs) == 0 {
		return false
	}
	for _, r := range rs {
		if r.Kind != "param" || r.V != ssa.Value(p) || len(r.Path) != 0 || r.Conv {
			return false
		}
	}
	return true
}

// ---------- C20 ----------

func runC20(c *Ctx) {
	const rd = "C20.field-discipline"
	d := c.EvalDispatcher()
	newRunner, set, get := c.fn("NewRunner"), c.method("Runner", "Set"), c.method("Runner", "Get")
	setThis, setThisValue := c.method("Runner", "SetThis"), c.method("Runner", "SetThisValue")
	for _, a := range []struct {
		f *ssa.Function
		n string
	}{{newRunner, "NewRunner"}, {set, "(*Runner).Set"}, {get, "(*Runner).Get"}, {setThis, "(*Runner).SetThis"}, {setThisValue, "(*Runner).SetThisValue"}} {
		if !c.need(rd, a.f, a.n) {
			return
		}
	}
	var idH, litH *ssa.Function
	if d != nil {
		idH, litH = d.Handlers["Identifier"], d.Handlers["LiteralExpression"]
		// locals assigned by a formula are entries of the current data map, stored on every path (null included)
		c07Binding(c, d, "C20.locals-are-map-entries")
		// ... and stay what they were: no later evaluation writes into a number a local holds
		c07Fresh(c, "C20.stored-values-not-mutated")
	}
	valueOK := map[*ssa.Function]bool{newRunner: true, set: true, get: true}
	thisStore := map[*ssa.Function]bool{setThis: true, setThisValue: true}
	thisRead := map[*ssa.Function]bool{setThisValue: true, setThis: true, idH: true, litH: true}
	n := 0
	for _, f := range c.P.ModFuncs {
		instrs(f, func(b *ssa.BasicBlock, i int, in ssa.Instruction) {
			fa, ok := in.(*ssa.FieldAddr)
			if !ok || typeName(fa.X.Type()) != "Runner" {
				return
			}
			fld := fieldName(fa)
			for _, ref := range *fa.Referrers() {
				n++
				_, isStore := ref.(*ssa.Store)
				if isStore && ref.(*ssa.Store).Addr != ssa.Value(fa) {
					isStore = false
				}
				kind := "read"
				if isStore {
					kind = "store"
				}
				cons := fmt.Sprintf("%s %s in %s", kind, fld, c.P.FuncKey(f))
				switch fld {
				case "value":
					c.R.Check(rd, cons, c.P.InstrPos(ref), valueOK[f], "the auxiliary store may only be touched by the constructor, Set and Get; formulas must neither see nor affect it")
				case "this":
					if isStore {
						c.R.Check(rd, cons, c.P.InstrPos(ref), thisStore[f], "the data map field may only be stored by SetThis and the entry setter")
					} else {
						c.R.Check(rd, cons, c.P.InstrPos(ref), thisRead[f], "the data map is read outside the identifier handler, the `this` literal and the entry setter")
					}
				default:
					c.R.Check(rd, cons, c.P.InstrPos(ref), false, "unknown runner field "+fld+": the model of C20 has exactly a data map and an auxiliary store")
				}
			}
		})
	}
	// composite literal in the constructor
	c.R.Floor(rd, 7)

	const rn = "C20.nil-map"
	// NewRunner: value = make(map), this untouched
	mk := false
	touchesThis := false
	instrs(newRunner, func(b *ssa.BasicBlock, i int, in ssa.Instruction) {
		if st, ok := in.(*ssa.Store); ok {
			if fa, ok := st.Addr.(*ssa.FieldAddr); ok && typeName(fa.X.Type()) == "Runner" {
				switch fieldName(fa) {
				case "value":
					if _, ok := st.Val.(*ssa.MakeMap); ok {
						mk = true
					}
				case "this":
					touchesThis = true
				}
			}
		}
	})
	c.R.Check(rn, "constructor-creates-store", c.P.Pos(newRunner.Pos()), mk, "the constructor must create the auxiliary store (Set on a nil map would panic)")
	c.R.Check(rn, "constructor-leaves-data-unset", c.P.Pos(newRunner.Pos()), !touchesThis, "a new runner has no data map")
	// SetThis stores its parameter itself
	okAlias := false
	instrs(setThis, func(b *ssa.BasicBlock, i int, in ssa.Instruction) {
		if st, ok := in.(*ssa.Store); ok {
			if fa, ok := st.Addr.(*ssa.FieldAddr); ok && fieldName(fa) == "this" && st.Val == ssa.Value(setThis.Params[1]) {
				okAlias = true
			}
		}
	})
	// (whether SetThis aliases or copies the caller's map is not observable through the runner's
	// operations, so only "the new map comes from the parameter" is required)
	fromParam := okAlias
	instrs(setThis, func(b *ssa.BasicBlock, i int, in ssa.Instruction) {
		if _, ok := in.(*ssa.Range); ok {
			fromParam = true
		}
	})
	c.R.Check(rn, "SetThis-takes-parameter", c.P.Pos(setThis.Pos()), fromParam, "replacing the data map must install (or copy) the map given by the caller")
	// ... and it must REPLACE: on every path the field receives the parameter itself or a newly made map
	replaces := func(in ssa.Instruction) bool {
		st, ok := in.(*ssa.Store)
		if !ok {
			return false
		}
		fa, ok := st.Addr.(*ssa.FieldAddr)
		if !ok || fieldName(fa) != "this" {
			return false
		}
		if st.Val == ssa.Value(setThis.Params[1]) {
			return true
		}
		_, isMake := st.Val.(*ssa.MakeMap)
		return isMake
	}
	c.R.Check(rn, "SetThis-replaces", c.P.Pos(setThis.Pos()), !pathExists(setThis, nil, isReturn, replaces, nil), "there is a path through SetThis on which the previous data map is kept (entries of the old map, earlier `$` locals included, survive the replacement)")
	c.entrySetterRule(rn, setThisValue)
	// the MapUpdate happens after the creation on every path
	c.R.Floor(rn, 5)

	const rs = "C20.separation"
	// Set: value[key] = val ; Get: returns value[key]
	setOK := false
	instrs(set, func(b *ssa.BasicBlock, i int, in ssa.Instruction) {
		if mu, ok := in.(*ssa.MapUpdate); ok {
			vm := false
			for _, rt := range plainOrigins.Roots(mu.Map) {
				if rt.Kind == "param" && len(rt.Path) == 1 && rt.Path[0] == "value" {
					vm = true
				}
			}
			if vm && mu.Key == ssa.Value(set.Params[1]) && mu.Value == ssa.Value(set.Params[2]) {
				setOK = true
			}
		}
	})
	c.R.Check(rs, "Set", c.P.Pos(set.Pos()), setOK, "Set must store exactly (key, value) into the auxiliary store")
	getOK := false
	instrs(get, func(b *ssa.BasicBlock, i int, in ssa.Instruction) {
		if ret, ok := in.(*ssa.Return); ok {
			if lk, ok := ret.Results[0].(*ssa.Lookup); ok && lk.Index == ssa.Value(get.Params[1]) {
				for _, rt := range plainOrigins.Roots(lk.X) {
					if rt.Kind == "param" && len(rt.Path) == 1 && rt.Path[0] == "value" {
						getOK = true
					}
				}
			}
		}
	})
	c.R.Check(rs, "Get", c.P.Pos(get.Pos()), getOK, "Get must return the auxiliary store's entry for the key")
	// no effect of Set/Get beyond that
	for _, f := range []*ssa.Function{set, get} {
		extra := 0
		for _, e := range c.localEffects(f) {
			if e.What == "mapupdate" && f == set {
				continue
			}
			extra++
		}
		ncalls := 0
		instrs(f, func(b *ssa.BasicBlock, i int, in ssa.Instruction) {
			if _, ok := in.(ssa.CallInstruction); ok {
				ncalls++
			}
		})
		c.R.Check(rs, "no-other-effect:"+c.P.FuncKey(f), c.P.Pos(f.Pos()), extra == 0 && ncalls == 0, "Set/Get must do nothing else")
	}
	// the evaluator does not reach Set/Get
	rr := c.ReachFrom("eval+builtins", c.evalRoots()...)
	c.R.Check(rs, "evaluator-does-not-call-Set-Get", "-", !rr.In[set] && !rr.In[get], "formulas must not reach the auxiliary store")
	c.R.Floor(rs, 5)
	_ = token.EQL
}

// pinNilCompareOfField pins `load(<x>.field) == nil`.
func pinNilCompareOfField(field string, isNil bool) Pin {
	return func(v ssa.Value) (constant.Value, bool) {
		bo, ok := v.(*ssa.BinOp)
		if !ok || (bo.Op != token.EQL && bo.Op != token.NEQ) {
			return nil, false
		}
		u, ok := bo.X.(*ssa.UnOp)
		if !ok {
			return nil, false
		}
		fa, ok := u.X.(*ssa.FieldAddr)
		if !ok || fieldName(fa) != field {
			return nil, false
		}
		if k, ok := bo.Y.(*ssa.Const); !ok || k.Value != nil {
			return nil, false
		}
		if bo.Op == token.NEQ {
			return constant.MakeBool(!isNil), true
		}
		return constant.MakeBool(isNil), true
	}
}

// memberReader finds the function the selector handler reads members with.
func (c *Ctx) memberReader(d *Dispatcher) *ssa.Function {
	h := d.Handlers["SelectorExpression"]
	if h == nil {
		return nil
	}
	node := c.nodeParamOf(h, "SelectorExpression")
	var reader *ssa.Function
	instrs(h, func(b *ssa.BasicBlock, i int, in ssa.Instruction) {
		call, ok := in.(*ssa.Call)
		if !ok {
			return
		}
		cal := calleeOf(call)
		if cal == nil || !c.inModule(cal) || cal == d.Fn || len(call.Call.Args) != 2 {
			return
		}
		for _, rt := range plainOrigins.Roots(call.Call.Args[1]) {
			if rt.Kind == "param" && rt.V == ssa.Value(node) && len(rt.Path) == 2 && rt.Path[0] == "Name" && rt.Path[1] == "Value" {
				reader = cal
			}
		}
	})
	c.P.touch(reader)
	return reader
}

// structFieldRules: the struct arm of the member reader.
//
//	present (present=true):  a field that exists is read even when it holds its zero value;
//	missing (present=false): a field that does not exist is an error (today: Interface() on the invalid
//	reflect.Value panics and the entry point's recover turns that into the error), never (null, no error).
func (c *Ctx) structFieldRules(rule string, reader *ssa.Function, present bool) {
	rp := c.P.Pos(reader.Pos())
	isNull := c.fn("IsNull")
	var structKind, invalidKind int64 = -1, 0
	for _, kn := range reflectKinds(c) {
		if kn.name == "Struct" {
			structKind = kn.val
		}
	}
	if structKind < 0 {
		c.R.Undecided(rule, "struct-kind", rp, "reflect.Struct not found")
		return
	}
	// a reflect.Value that came out of a field lookup
	fromField := func(v ssa.Value) bool {
		for _, rt := range plainOrigins.Roots(v) {
			if rt.Kind == "call" && rt.Fn != nil {
				switch rt.Fn.String() {
				case "(reflect.Value).FieldByName", "(reflect.Value).FieldByIndex", "(reflect.Value).Field", "(reflect.Value).FieldByNameFunc":
					return true
				}
			}
		}
		return false
	}
	recvOf := func(call *ssa.Call) ssa.Value {
		if len(call.Call.Args) > 0 {
			return call.Call.Args[0]
		}
		return nil
	}
	onField := func(call *ssa.Call) bool { r := recvOf(call); return r != nil && fromField(r) }
	notOnField := func(call *ssa.Call) bool { return !onField(call) }
	fieldKind := cInt(invalidKind)
	if present {
		fieldKind = cInt(2) // reflect.Int: any valid kind
	}
	ps := []Pin{pinCallFn(isNull, cFalse, nil),
		pinCall("(reflect.Value).Kind", fieldKind, onField),
		pinCall("(reflect.Value).Kind", cInt(structKind), notOnField),
		pinCall("Kind", cInt(structKind), func(call *ssa.Call) bool { return call.Call.IsInvoke() }),
		pinCall("(reflect.Value).IsValid", boolConst(present), onField),
		pinCall("(reflect.Value).IsValid", cTrue, notOnField),
		pinCall("(reflect.Value).IsZero", cTrue, onField),
		pinCall("(reflect.Value).IsNil", cFalse, nil),
		// the ordinary case: a string key fits the map's key type, the field is exported and reachable
		pinCall("AssignableTo", cTrue, nil), pinCall("ConvertibleTo", cTrue, nil), pinCall("(reflect.Value).CanInterface", cTrue, nil),
		pinCall("(reflect.StructField).IsExported", cTrue, nil),
		func(v ssa.Value) (constant.Value, bool) {
			switch x := v.(type) {
			case *ssa.Field:
				// sf.PkgPath of the reflect.StructField found: "" for an exported field
				if st, ok := x.X.Type().Underlying().(*types.Struct); ok && x.Field < st.NumFields() && st.Field(x.Field).Name() == "PkgPath" && strings.HasSuffix(x.X.Type().String(), "reflect.StructField") {
					return constant.MakeString(""), true
				}
			case *ssa.UnOp:
				// the same through a spilled local: *(&sf.PkgPath)
				if fa, ok := x.X.(*ssa.FieldAddr); ok && x.Op == token.MUL && strings.HasSuffix(deref(fa.X.Type()).String(), "reflect.StructField") {
					if st, ok := deref(fa.X.Type()).Underlying().(*types.Struct); ok && fa.Field < st.NumFields() && st.Field(fa.Field).Name() == "PkgPath" {
						return constant.MakeString(""), true
					}
				}
			case *ssa.Extract:
				// the error of rv.FieldByIndexErr(..): nil (no nil embedded pointer on the way)
				if call, ok := x.Tuple.(*ssa.Call); ok && x.Index == 1 && calleeOf(call) != nil && calleeOf(call).String() == "(reflect.Value).FieldByIndexErr" {
					return constant.MakeUnknown(), true
				}
			}
			return nil, false
		},
		// (reflect.Type).FieldByName reports presence in its second result
		func(v ssa.Value) (constant.Value, bool) {
			ex, ok := v.(*ssa.Extract)
			if !ok || ex.Index != 1 {
				return nil, false
			}
			call, ok := ex.Tuple.(*ssa.Call)
			if !ok || call.Call.Method == nil || !strings.HasPrefix(call.Call.Method.Name(), "FieldByName") {
				return nil, false
			}
			return boolConst(present), true
		}}
	r := c.foldWith(reader, 0, ps...)
	if present {
		readsIt := len(r.Returns) > 0
		for _, ret := range r.Returns {
			if isNilConst(ret.Results[0]) {
				readsIt = false
			}
		}
		c.R.Check(rule, "struct-field-present-with-zero-value", rp, readsIt, "a struct field that exists but holds its zero value (0, \"\", false) must be read as that value, not as null")
		return
	}
	// missing: no path to a (x, nil-error) return that avoids the panicking Interface() on the looked-up field
	isIface := func(in ssa.Instruction) bool {
		call, ok := in.(*ssa.Call)
		if !ok {
			return false
		}
		cal := calleeOf(call)
		return cal != nil && cal.String() == "(reflect.Value).Interface" && onField(call)
	}
	okRet := func(in ssa.Instruction) bool {
		ret, ok := in.(*ssa.Return)
		return ok && len(ret.Results) == 2 && isNilConst(ret.Results[1])
	}
	silent := len(reader.Blocks) > 0 && pathExistsIn(r, nil, okRet, isIface)
	c.R.Check(rule, "struct-field-missing-is-error", rp, !silent, "reading a struct field that does not exist must end in an error (the invalid reflect.Value's Interface() panics and Resolve reports it); there is a path that returns (value, no error) for a missing field, so a misspelt field silently reads as null")
}

// entrySetterRule: SetThisValue creates the data map when it is nil and then stores exactly (key, value), on every path.
func (c *Ctx) entrySetterRule(rn string, setThisValue *ssa.Function) {
	// SetThisValue: nil -> fresh map, then exactly this[key] = value
	for _, isNil := range []bool{true, false} {
		r := c.foldWith(setThisValue, 0, pinNilCompareOfField("this", isNil))
		made := false
		var upd *ssa.MapUpdate
		var fresh ssa.Value
		for _, b := range setThisValue.Blocks {
			if !r.Reach[b] {
				continue
			}
			for _, in := range b.Instrs {
				if st, ok := in.(*ssa.Store); ok {
					if fa, ok := st.Addr.(*ssa.FieldAddr); ok && fieldName(fa) == "this" {
						if mk, ok := st.Val.(*ssa.MakeMap); ok {
							made = true
							fresh = mk
						}
					}
				}
				if mu, ok := in.(*ssa.MapUpdate); ok {
					upd = mu
				}
			}
		}
		// into the runner's map, or into the fresh map that becomes it (`r.this = map[..]..{key: value}`)
		updOK := upd != nil && upd.Key == ssa.Value(setThisValue.Params[1]) && (upd.Value == ssa.Value(setThisValue.Params[2]) || c.exactCopyOf(upd.Value, setThisValue.Params[2])) && (c.isThisMap(upd.Map) || fresh != nil && upd.Map == fresh)
		if updOK && len(setThisValue.Blocks) > 0 {
			// ... on every path: no value (null included) is silently not stored, or an earlier entry would survive
			isUpd := func(in ssa.Instruction) bool { _, ok := in.(*ssa.MapUpdate); return ok }
			if pathExistsIn(r, nil, isReturn, isUpd) {
				updOK = false
			}
		}
		c.R.Check(rn, fmt.Sprintf("entry-setter:map-nil=%v", isNil), c.P.Pos(setThisValue.Pos()), made == isNil && updOK, fmt.Sprintf("with the data map nil=%v: creates a map=%v (expected %v), stores exactly (key, value) into it on every path=%v", isNil, made, isNil, updOK))
	}
}

// pinNilTestOfConsumer pins `consume(kind) == nil` / `!= nil` for the conditional token consumer called with the
// constant kind (gotToken(SK_Dot) and the like): isNil says whether the consumer returned nil.
func pinNilTestOfConsumer(kind int64, isNil bool) Pin {
	return func(v ssa.Value) (constant.Value, bool) {
		bo, ok := v.(*ssa.BinOp)
		if !ok || (bo.Op != token.EQL && bo.Op != token.NEQ) {
			return nil, false
		}
		var call *ssa.Call
		if cl, isC := bo.X.(*ssa.Call); isC && isNilConst(bo.Y) {
			call = cl
		} else if cl, isC := bo.Y.(*ssa.Call); isC && isNilConst(bo.X) {
			call = cl
		}
		if call == nil {
			return nil, false
		}
		hit := false
		for _, a := range call.Call.Args {
			if k, isK := constIntArg(a); isK && k == kind && typeName(a.Type()) == "SyntaxKind" {
				hit = true
			}
		}
		if !hit {
			return nil, false
		}
		res := isNil
		if bo.Op == token.NEQ {
			res = !isNil
		}
		return constant.MakeBool(res), true
	}
}

// nilUnifier: a module function `f(x) any` that yields nil when IsNull(x) and x itself otherwise.
func (c *Ctx) nilUnifier(f *ssa.Function) bool {
	if f == nil || !c.inModule(f) || len(f.Blocks) == 0 || len(f.Params) != 1 || f.Signature.Results().Len() != 1 {
		return false
	}
	isNull := c.fn("IsNull")
	if isNull == nil || len(callsTo(f, isNull)) == 0 {
		return false
	}
	rt := c.foldWith(f, 0, pinCallFn(isNull, constant.MakeBool(true), nil))
	rf := c.foldWith(f, 0, pinCallFn(isNull, constant.MakeBool(false), nil))
	if len(rt.Returns) == 0 || len(rf.Returns) == 0 {
		return false
	}
	for _, ret := range rt.Returns {
		if !isNilConst(ret.Results[0]) {
			return false
		}
	}
	for _, ret := range rf.Returns {
		if !c.derivedOnlyFromParam(ret.Results[0], f.Params[0]) {
			return false
		}
	}
	return true
}

// c16NilUnified: whatever a member access yields has gone through the nil unifier (a typed nil pointer found in a map
// entry or in a struct field is the formula's null, so that `!x.f`, `x.f ?? d`, `x.f ? a : b` treat it as null): every
// successful return of the selector handler is nil, the unifier's result, or the result of the member reader all of
// whose own successful returns are.
func c16NilUnified(c *Ctx, d *Dispatcher, rule string) {
	h := d.Handlers["SelectorExpression"]
	if h == nil {
		return
	}
	var check func(f *ssa.Function, idx int, depth int) (bool, string)
	check = func(f *ssa.Function, idx int, depth int) (bool, string) {
		if depth > 3 {
			return false, "too deep"
		}
		ok, why := true, ""
		n := 0
		instrs(f, func(b *ssa.BasicBlock, i int, in ssa.Instruction) {
			ret, isR := in.(*ssa.Return)
			if !isR || idx >= len(ret.Results) {
				return
			}
			if last := ret.Results[len(ret.Results)-1]; len(ret.Results) > 1 && isErrorType(last.Type()) && !isNilConst(last) && isNilConst(ret.Results[idx]) {
				return // an error return
			}
			n++
			// written out: the value is returned on the not-null side of a test IsNull(value)
			guarded := func(v ssa.Value) bool {
				isNull := c.fn("IsNull")
				for d := ret.Block(); d != nil; d = d.Idom() {
					id := d.Idom()
					if id == nil || len(d.Preds) != 1 {
						continue
					}
					iff, isIf := id.Instrs[len(id.Instrs)-1].(*ssa.If)
					if !isIf || id.Succs[1] != d {
						continue
					}
					if call, isC := iff.Cond.(*ssa.Call); isC && calleeOf(call) == isNull && len(call.Call.Args) == 1 && stripIface(call.Call.Args[0]) == stripIface(v) {
						return true
					}
				}
				return false
			}
			if guarded(ret.Results[idx]) {
				return
			}
			for _, rt := range plainOrigins.Roots(ret.Results[idx]) {
				switch {
				case rt.Kind == "const" && isNilConst(rt.V):
				case rt.Kind == "call" && rt.Fn != nil && c.nilUnifier(rt.Fn):
				case rt.Kind == "call" && rt.Fn != nil && c.inModule(rt.Fn) && rt.Fn != d.Fn && len(rt.Path) == 0:
					if sub, w := check(rt.Fn, rt.Idx, depth+1); !sub {
						ok, why = false, w
					}
				default:
					ok = false
					why = fmt.Sprintf("%s returns %s at %s without passing it through the nil unifier", c.P.FuncKey(f), rt.String(), c.P.InstrPos(ret))
				}
			}
		})
		if n == 0 {
			return false, c.P.FuncKey(f) + " has no successful return"
		}
		return ok, why
	}
	ok, why := check(h, 0, 0)
	if rule == "" {
		nilUnifiedResult[c] = ok
		return
	}
	c.R.Check(rule, "selector-results", c.P.Pos(h.Pos()), ok, "a member that holds a typed nil pointer must read as null on every path (map entry and struct field alike): "+why)
}

var nilUnifiedResult = map[*Ctx]bool{}

func (c *Ctx) nilUnifiedOK(d *Dispatcher) bool {
	c16NilUnified(c, d, "")
	return nilUnifiedResult[c]
}

// c16IsNilGuarded: a member is read whatever its kind - int and float entries become numbers, strings, booleans and
// times are handed on. (reflect.Value).IsNil panics for every kind that cannot be nil, so in the member reader a call
// of it on the value looked up (MapIndex / FieldByName / Field) must sit behind a test of that value's Kind against a
// kind that can be nil; unguarded, reading `stock.apple` from a map[string]int fails.
func c16IsNilGuarded(c *Ctx, rule string, reader *ssa.Function, kinds []kindConst) {
	nillable := map[int64]bool{}
	for _, k := range kinds {
		switch k.name {
		case "Pointer", "Map", "Slice", "Interface", "Func", "Chan", "UnsafePointer":
			nillable[k.val] = true
		}
	}
	same := func(a, b ssa.Value) bool {
		if a == b {
			return true
		}
		ua, oka := a.(*ssa.UnOp)
		ub, okb := b.(*ssa.UnOp)
		return oka && okb && ua.Op == token.MUL && ub.Op == token.MUL && ua.X == ub.X
	}
	isLookup := func(v ssa.Value) bool {
		for _, rt := range plainOrigins.Roots(v) {
			if rt.Kind == "call" && rt.Fn != nil {
				switch rt.Fn.String() {
				case "(reflect.Value).MapIndex", "(reflect.Value).FieldByName", "(reflect.Value).Field":
					return true
				}
			}
		}
		return false
	}
	n := 0
	instrs(reader, func(b *ssa.BasicBlock, i int, in ssa.Instruction) {
		call, ok := in.(*ssa.Call)
		if !ok {
			return
		}
		cal := calleeOf(call)
		if cal == nil || cal.String() != "(reflect.Value).IsNil" || !isLookup(call.Call.Args[0]) {
			return
		}
		n++
		recv := call.Call.Args[0]
		// edges on which recv's kind is known to be one that can be nil
		guardEdge := func(bb *ssa.BasicBlock, k int) bool {
			if len(bb.Instrs) == 0 {
				return false
			}
			iff, ok := bb.Instrs[len(bb.Instrs)-1].(*ssa.If)
			if !ok {
				return false
			}
			bo, ok := iff.Cond.(*ssa.BinOp)
			if !ok || (bo.Op != token.EQL && bo.Op != token.NEQ) {
				return false
			}
			kc, okc := bo.X.(*ssa.Call)
			kv, okv := constIntArg(bo.Y)
			if !okc || !okv {
				kc, okc = bo.Y.(*ssa.Call)
				kv, okv = constIntArg(bo.X)
			}
			if !okc || !okv || calleeOf(kc) == nil || calleeOf(kc).String() != "(reflect.Value).Kind" || !same(kc.Call.Args[0], recv) || !nillable[kv] {
				return false
			}
			return bo.Op == token.EQL && k == 0 || bo.Op == token.NEQ && k == 1
		}
		unguarded := pathExists(reader, nil, func(x ssa.Instruction) bool { return x == in }, nil, func(bb *ssa.BasicBlock, k int) bool { return !guardEdge(bb, k) })
		c.R.Check(rule, fmt.Sprintf("IsNil-on-member-guarded-by-kind#%d", n), c.P.InstrPos(in), !unguarded, "(reflect.Value).IsNil is called on the member looked up without a test that its Kind can be nil (pointer, map, slice, interface, func, chan): it panics for int, float, string, bool, struct and time members, so reading such a member from a typed map or a struct fails")
	})
}

// foldedNil: v is the nil constant, or folded to nil under the pins of r (the error result of a call pinned to have
// succeeded, handed on by `return reader(..)`).
func foldedNil(r *FoldResult, v ssa.Value) bool {
	if k, ok := v.(*ssa.Const); ok {
		return k.Value == nil
	}
	lv := r.Val(v)
	return lv.K == lConst && lv.C != nil && lv.C.Kind() == constant.Unknown
}

// exactCopyOf: v is the result of a module function applied to p that hands p back, or - for a number - a fresh number
// made by (*Big).Copy of it: a defensive copy that keeps every digit. (Set, Round, Quantize and the arithmetic finish
// their result in the context of the receiver: 16 digits for new(decimal.Big).)
func (c *Ctx) exactCopyOf(v ssa.Value, p *ssa.Parameter) bool {
	// written out (the helper expanded): every origin of the value is p itself or such a copy of it
	if rs := plainOrigins.Roots(v); len(rs) > 1 {
		for _, rt := range rs {
			switch {
			case rt.Kind == "param" && rt.V == ssa.Value(p) && len(rt.Path) == 0:
			case rt.Kind == "call" && rt.Fn != nil && rt.Fn.String() == "(*"+decimalPath+".Big).Copy" && len(rt.Path) == 0:
				cp := rt.V.(*ssa.Call)
				if fresh, _ := c.isFreshDecimal(cp.Call.Args[0]); !fresh {
					return false
				}
				for _, q := range plainOrigins.Roots(cp.Call.Args[1]) {
					if !(q.Kind == "param" && q.V == ssa.Value(p)) {
						return false
					}
				}
			default:
				return false
			}
		}
		return true
	}
	call, ok := v.(*ssa.Call)
	if !ok {
		return false
	}
	g := calleeOf(call)
	if g == nil || !c.inModule(g) || len(g.Blocks) == 0 || len(call.Call.Args) != 1 || stripIface(call.Call.Args[0]) != ssa.Value(p) || len(g.Params) != 1 {
		return false
	}
	gp := g.Params[0]
	n := 0
	good := true
	instrs(g, func(b *ssa.BasicBlock, i int, in ssa.Instruction) {
		ret, isRet := in.(*ssa.Return)
		if !isRet || len(ret.Results) != 1 {
			return
		}
		n++
		r := stripIface(ret.Results[0])
		if r == ssa.Value(gp) {
			return
		}
		// the value asserted out of the parameter, handed back as it is
		allParam := true
		rs := plainOrigins.Roots(r)
		for _, rt := range rs {
			if !(rt.Kind == "param" && rt.V == ssa.Value(gp) && len(rt.Path) == 0) {
				allParam = false
			}
		}
		if allParam && len(rs) > 0 {
			return
		}
		cp, isCall := r.(*ssa.Call)
		if !isCall || calleeOf(cp) == nil || calleeOf(cp).String() != "(*"+decimalPath+".Big).Copy" || len(cp.Call.Args) != 2 {
			good = false
			return
		}
		if fresh, _ := c.isFreshDecimal(cp.Call.Args[0]); !fresh {
			good = false
		}
		for _, rt := range plainOrigins.Roots(cp.Call.Args[1]) {
			if !(rt.Kind == "param" && rt.V == ssa.Value(gp)) {
				good = false
			}
		}
	})
	return good && n > 0
}

// exactDecimalCopy: x is a fresh number made by (*Big).Copy of the number in p (a private copy that keeps every digit;
// Set would round it to the precision of the receiver's context).
func (c *Ctx) exactDecimalCopy(x ssa.Value, p *ssa.Parameter) bool {
	rs := plainOrigins.Roots(stripIface(x))
	if len(rs) == 0 {
		return false
	}
	for _, rt := range rs {
		switch {
		case rt.Kind == "param" && rt.V == ssa.Value(p) && len(rt.Path) == 0:
		case rt.Kind == "call" && rt.Fn != nil && rt.Fn.String() == "(*"+decimalPath+".Big).Copy" && len(rt.Path) == 0:
			cp := rt.V.(*ssa.Call)
			if fresh, _ := c.isFreshDecimal(cp.Call.Args[0]); !fresh {
				return false
			}
			for _, q := range plainOrigins.Roots(cp.Call.Args[1]) {
				if !(q.Kind == "param" && q.V == ssa.Value(p)) {
					return false
				}
			}
		default:
			return false
		}
	}
	return true
}
