package main

import (
	"go/token"
	"go/types"
	"sort"
	"strings"

	"golang.org/x/tools/go/ssa"
)

// ---------- instruction helpers ----------

func instrs(f *ssa.Function, visit func(b *ssa.BasicBlock, i int, in ssa.Instruction)) {
	if f == nil {
		return
	}
	for _, b := range f.Blocks {
		for i, in := range b.Instrs {
			visit(b, i, in)
		}
	}
}

// withAnon visits f and all functions nested in it (closures).
func withAnon(f *ssa.Function, visit func(g *ssa.Function)) {
	if f == nil {
		return
	}
	visit(f)
	for _, a := range f.AnonFuncs {
		withAnon(a, visit)
	}
}

// unwrapFn maps bound-method wrappers, thunks and generic instances to the
// function a reader would name: (*T).m$bound -> (*T).m .
func unwrapFn(f *ssa.Function) *ssa.Function {
	for f != nil && f.Synthetic != "" && len(f.Blocks) > 0 {
		// wrappers consist of a single call to the wrapped function
		var inner *ssa.Function
		n := 0
		for _, b := range f.Blocks {
			for _, in := range b.Instrs {
				if c, ok := in.(ssa.CallInstruction); ok {
					if sc := c.Common().StaticCallee(); sc != nil {
						inner = sc
						n++
					}
				}
			}
		}
		if n != 1 || inner == nil {
			break
		}
		if !(strings.HasSuffix(f.Name(), "$bound") || strings.HasSuffix(f.Name(), "$thunk") || strings.HasPrefix(f.Synthetic, "wrapper") || strings.HasPrefix(f.Synthetic, "bound") || strings.HasPrefix(f.Synthetic, "thunk")) {
			break
		}
		f = inner
	}
	return f
}

// calleeOf returns the statically known callee of a call, following closures
// created in place (MakeClosure) and bound-method wrappers; nil for dynamic calls.
func calleeOf(c ssa.CallInstruction) *ssa.Function {
	cc := c.Common()
	if f := cc.StaticCallee(); f != nil {
		return unwrapFn(f)
	}
	return nil
}

// fnValue resolves a value used as a function (argument or callee) to the
// function it denotes when that is syntactically evident.
func fnValue(v ssa.Value) *ssa.Function {
	switch x := v.(type) {
	case *ssa.Function:
		return unwrapFn(x)
	case *ssa.MakeClosure:
		if f, ok := x.Fn.(*ssa.Function); ok {
			return unwrapFn(f)
		}
	case *ssa.ChangeType:
		return fnValue(x.X)
	case *ssa.MakeInterface:
		return fnValue(x.X)
	}
	return nil
}

func isCallTo(in ssa.Instruction, fs ...*ssa.Function) bool {
	c, ok := in.(ssa.CallInstruction)
	if !ok {
		return false
	}
	cal := calleeOf(c)
	if cal == nil {
		return false
	}
	for _, f := range fs {
		if f != nil && (cal == f || cal.Origin() == f || (f.Origin() != nil && cal == f.Origin())) {
			return true
		}
	}
	return false
}

// fullName returns e.g. "(*github.com/ericlagergren/decimal.Big).Cmp" or "strings.HasPrefix".
func fullName(f *ssa.Function) string {
	if f == nil {
		return ""
	}
	return f.String()
}

func callName(in ssa.Instruction) string {
	c, ok := in.(ssa.CallInstruction)
	if !ok {
		return ""
	}
	cc := c.Common()
	if cc.IsInvoke() {
		return "invoke " + cc.Value.Type().String() + "." + cc.Method.Name()
	}
	if f := calleeOf(c); f != nil {
		return fullName(f)
	}
	if b, ok := cc.Value.(*ssa.Builtin); ok {
		return "builtin " + b.Name()
	}
	return ""
}

func isBuiltinCall(in ssa.Instruction, name string) bool {
	c, ok := in.(ssa.CallInstruction)
	if !ok {
		return false
	}
	b, ok := c.Common().Value.(*ssa.Builtin)
	return ok && b.Name() == name
}

// ---------- reachability over the call structure ----------

// Reach computes the set of functions reachable from roots. It is
// deliberately coarse (every function *referenced* from a reachable function
// is reachable; interface calls go to every method of that name whose
// receiver implements the interface, CHA style), hence it only ever adds
// functions compared with a precise call graph. inScope limits traversal
// (e.g. to module functions); functions outside scope are recorded in the
// result's Ext set but not entered.
type ReachResult struct {
	In    map[*ssa.Function]bool
	Ext   map[*ssa.Function]bool
	Pred  map[*ssa.Function]*ssa.Function // one predecessor, for call chains
	Order []*ssa.Function
}

func (p *Prog) Reach(roots []*ssa.Function, inScope func(*ssa.Function) bool, skip func(*ssa.Function) bool) *ReachResult {
	res := &ReachResult{In: map[*ssa.Function]bool{}, Ext: map[*ssa.Function]bool{}, Pred: map[*ssa.Function]*ssa.Function{}}
	var work []*ssa.Function
	add := func(f, from *ssa.Function) {
		if f == nil {
			return
		}
		if skip != nil && skip(f) {
			return
		}
		if !inScope(f) {
			if !res.Ext[f] {
				res.Ext[f] = true
				if _, ok := res.Pred[f]; !ok {
					res.Pred[f] = from
				}
			}
			return
		}
		if res.In[f] {
			return
		}
		res.In[f] = true
		res.Pred[f] = from
		res.Order = append(res.Order, f)
		work = append(work, f)
	}
	for _, r := range roots {
		add(r, nil)
	}
	var ops []*ssa.Value
	for len(work) > 0 {
		f := work[len(work)-1]
		work = work[:len(work)-1]
		for _, b := range f.Blocks {
			for _, in := range b.Instrs {
				ops = in.Operands(ops[:0])
				for _, op := range ops {
					if op == nil || *op == nil {
						continue
					}
					switch v := (*op).(type) {
					case *ssa.Function:
						add(v, f)
					case *ssa.MakeClosure:
						if g, ok := v.Fn.(*ssa.Function); ok {
							add(g, f)
						}
					}
				}
				if mc, ok := in.(*ssa.MakeClosure); ok {
					if g, ok := mc.Fn.(*ssa.Function); ok {
						add(g, f)
					}
				}
				if c, ok := in.(ssa.CallInstruction); ok && c.Common().IsInvoke() {
					for _, g := range p.implementations(c.Common()) {
						add(g, f)
					}
				}
			}
		}
		// a generic instance or wrapper: also its anon funcs are found through MakeClosure operands
	}
	return res
}

// implementations returns module methods that an interface call may dispatch to.
func (p *Prog) implementations(cc *ssa.CallCommon) []*ssa.Function {
	iface, ok := cc.Value.Type().Underlying().(*types.Interface)
	if !ok {
		return nil
	}
	var out []*ssa.Function
	for _, T := range p.moduleNamedTypes() {
		for _, t := range []types.Type{T, types.NewPointer(T)} {
			if !types.Implements(t, iface) {
				continue
			}
			ms := p.SSA.MethodSets.MethodSet(t)
			sel := ms.Lookup(cc.Method.Pkg(), cc.Method.Name())
			if sel == nil {
				continue
			}
			if f := p.SSA.MethodValue(sel); f != nil {
				out = append(out, f)
			}
		}
	}
	return out
}

var namedCache = map[*Prog][]types.Type{}

func (p *Prog) moduleNamedTypes() []types.Type {
	if v, ok := namedCache[p]; ok {
		return v
	}
	var out []types.Type
	sc := p.Types.Scope()
	for _, n := range sc.Names() {
		if tn, ok := sc.Lookup(n).(*types.TypeName); ok && !tn.IsAlias() {
			if nt, ok := tn.Type().(*types.Named); ok && nt.TypeParams().Len() == 0 {
				out = append(out, nt)
			}
		}
	}
	// instantiated generic types used by the program (NodeList[Expression])
	for _, t := range p.SSA.RuntimeTypes() {
		if nt, ok := t.(*types.Named); ok && nt.Obj().Pkg() == p.Types && nt.TypeArgs().Len() > 0 {
			out = append(out, nt)
		}
		if pt, ok := t.(*types.Pointer); ok {
			if nt, ok := pt.Elem().(*types.Named); ok && nt.Obj().Pkg() == p.Types && nt.TypeArgs().Len() > 0 {
				out = append(out, nt)
			}
		}
	}
	namedCache[p] = out
	return out
}

// Chain renders the call chain root -> ... -> f recorded by Reach.
func (r *ReachResult) Chain(p *Prog, f *ssa.Function) string {
	var parts []string
	seen := map[*ssa.Function]bool{}
	for f != nil && !seen[f] {
		seen[f] = true
		parts = append(parts, p.FuncKey(f))
		f = r.Pred[f]
	}
	for i, j := 0, len(parts)-1; i < j; i, j = i+1, j-1 {
		parts[i], parts[j] = parts[j], parts[i]
	}
	return strings.Join(parts, " -> ")
}

// ---------- positions inside a function ----------

type IPos struct {
	B *ssa.BasicBlock
	I int
}

func posOf(in ssa.Instruction) IPos {
	b := in.Block()
	for i, x := range b.Instrs {
		if x == in {
			return IPos{b, i}
		}
	}
	return IPos{b, -1}
}

// instrDominates: a executes before b on every path from entry to b.
func instrDominates(a, b ssa.Instruction) bool {
	if a.Block() == b.Block() {
		return posOf(a).I < posOf(b).I
	}
	return a.Block().Dominates(b.Block())
}

// pathExists reports whether some control-flow path starting just *after*
// `from` (or at the function entry when from is nil) reaches an instruction
// satisfying goal without first passing an instruction satisfying avoid.
// edgeOK, when non-nil, may veto individual CFG edges (block, successor index).
func pathExists(f *ssa.Function, from ssa.Instruction, goal, avoid func(ssa.Instruction) bool, edgeOK func(b *ssa.BasicBlock, succ int) bool) bool {
	_, ok := findPath(f, from, goal, avoid, edgeOK)
	return ok
}

func findPath(f *ssa.Function, from ssa.Instruction, goal, avoid func(ssa.Instruction) bool, edgeOK func(b *ssa.BasicBlock, succ int) bool) ([]*ssa.BasicBlock, bool) {
	if len(f.Blocks) == 0 {
		return nil, false
	}
	type st struct {
		b    *ssa.BasicBlock
		i    int
		path []*ssa.BasicBlock
	}
	var start st
	if from == nil {
		start = st{f.Blocks[0], 0, nil}
	} else {
		ip := posOf(from)
		start = st{ip.B, ip.I + 1, nil}
	}
	visited := map[*ssa.BasicBlock]bool{}
	work := []st{start}
	first := true
	for len(work) > 0 {
		s := work[len(work)-1]
		work = work[:len(work)-1]
		if !first || s.i == 0 {
			if visited[s.b] {
				continue
			}
			visited[s.b] = true
		}
		first = false
		path := append(append([]*ssa.BasicBlock{}, s.path...), s.b)
		blocked := false
		for i := s.i; i < len(s.b.Instrs); i++ {
			in := s.b.Instrs[i]
			if avoid != nil && avoid(in) {
				blocked = true
				break
			}
			if goal(in) {
				return path, true
			}
		}
		if blocked {
			continue
		}
		for k, succ := range s.b.Succs {
			if edgeOK != nil && !edgeOK(s.b, k) {
				continue
			}
			work = append(work, st{succ, 0, path})
		}
	}
	return nil, false
}

func isReturn(in ssa.Instruction) bool { _, ok := in.(*ssa.Return); return ok }
func isPanic(in ssa.Instruction) bool  { _, ok := in.(*ssa.Panic); return ok }
func isExit(in ssa.Instruction) bool   { return isReturn(in) || isPanic(in) }

func blockPath(bs []*ssa.BasicBlock) string {
	var s []string
	for _, b := range bs {
		c := b.Comment
		if c == "" {
			c = "b"
		}
		s = append(s, c+"#"+itoa(b.Index))
	}
	return strings.Join(s, ">")
}

func itoa(i int) string {
	if i == 0 {
		return "0"
	}
	neg := i < 0
	if neg {
		i = -i
	}
	var b []byte
	for i > 0 {
		b = append([]byte{byte('0' + i%10)}, b...)
		i /= 10
	}
	if neg {
		b = append([]byte{'-'}, b...)
	}
	return string(b)
}

// ---------- loops ----------

// Loop is a natural loop: header plus body blocks.
type Loop struct {
	Header *ssa.BasicBlock
	Body   map[*ssa.BasicBlock]bool
	Latch  []*ssa.BasicBlock
}

func naturalLoops(f *ssa.Function) []*Loop {
	byHeader := map[*ssa.BasicBlock]*Loop{}
	var order []*ssa.BasicBlock
	for _, b := range f.Blocks {
		for _, s := range b.Succs {
			if s.Dominates(b) { // back edge b -> s
				l := byHeader[s]
				if l == nil {
					l = &Loop{Header: s, Body: map[*ssa.BasicBlock]bool{s: true}}
					byHeader[s] = l
					order = append(order, s)
				}
				l.Latch = append(l.Latch, b)
				// collect body: nodes that reach b without passing s
				stack := []*ssa.BasicBlock{b}
				for len(stack) > 0 {
					x := stack[len(stack)-1]
					stack = stack[:len(stack)-1]
					if l.Body[x] {
						continue
					}
					l.Body[x] = true
					stack = append(stack, x.Preds...)
				}
			}
		}
	}
	var out []*Loop
	for _, h := range order {
		out = append(out, byHeader[h])
	}
	sort.Slice(out, func(i, j int) bool { return out[i].Header.Index < out[j].Header.Index })
	return out
}

// cycleAvoiding reports whether there is a cycle header -> ... -> header that
// stays inside the loop body and passes no instruction satisfying progress
// (edge-sensitively: edgeProgress(b,k) marks an edge that itself implies progress).
func (l *Loop) cycleAvoiding(progress func(ssa.Instruction) bool, edgeProgress func(b *ssa.BasicBlock, k int) bool) ([]*ssa.BasicBlock, bool) {
	type st struct {
		b    *ssa.BasicBlock
		path []*ssa.BasicBlock
	}
	visited := map[*ssa.BasicBlock]bool{}
	work := []st{{l.Header, nil}}
	first := true
	for len(work) > 0 {
		s := work[len(work)-1]
		work = work[:len(work)-1]
		if !first && s.b == l.Header {
			return append(s.path, s.b), true
		}
		if visited[s.b] {
			continue
		}
		visited[s.b] = true
		first = false
		blocked := false
		for _, in := range s.b.Instrs {
			if progress(in) {
				blocked = true
				break
			}
		}
		if blocked {
			continue
		}
		path := append(append([]*ssa.BasicBlock{}, s.path...), s.b)
		for k, succ := range s.b.Succs {
			if !l.Body[succ] {
				continue
			}
			if edgeProgress != nil && edgeProgress(s.b, k) {
				continue
			}
			if succ == l.Header {
				return append(path, succ), true
			}
			work = append(work, st{succ, path})
		}
	}
	return nil, false
}

// ---------- misc ----------

func deref(t types.Type) types.Type {
	if p, ok := t.Underlying().(*types.Pointer); ok {
		return p.Elem()
	}
	return t
}

func namedOf(t types.Type) *types.Named {
	t = deref(t)
	n, _ := t.(*types.Named)
	return n
}

func typeName(t types.Type) string {
	if n := namedOf(t); n != nil {
		return n.Obj().Name()
	}
	return t.String()
}

func fieldName(fa *ssa.FieldAddr) string {
	st, ok := deref(fa.X.Type()).Underlying().(*types.Struct)
	if !ok {
		return "?"
	}
	return canonFieldName(st.Field(fa.Field))
}

func fieldNameV(fv *ssa.Field) string {
	st, ok := fv.X.Type().Underlying().(*types.Struct)
	if !ok {
		return "?"
	}
	return canonFieldName(st.Field(fv.Field))
}

func validPos(ps ...token.Pos) token.Pos {
	for _, p := range ps {
		if p.IsValid() {
			return p
		}
	}
	return token.NoPos
}

func sortedKeys[M ~map[string]V, V any](m M) []string {
	var ks []string
	for k := range m {
		ks = append(ks, k)
	}
	sort.Strings(ks)
	return ks
}

// fnBase is the function's declared name without type arguments:
// "At[formula.Expression]" -> "At".
func fnBase(f *ssa.Function) string {
	if f == nil {
		return ""
	}
	n := f.Name()
	if i := strings.IndexByte(n, '['); i >= 0 {
		n = n[:i]
	}
	return n
}
