package main

import (
	"fmt"
	"go/ast"
	"go/token"
	"go/types"
	"os"
	"sort"
	"strings"
)

// Re-rolling written-out helpers (source-to-source, in memory; part of the normalised form P').
//
// The inverse of inline.go. A later edit may write the body of a small function of the pinned tree out at its call
// site ("inline method"): `r.SetThisValue(name, v)` becomes
//
//	if r.this == nil { r.this = map[string]interface{}{} }
//	r.this[name] = v
//
// The rules are anchored on the function ("the only writer of the data map is the entry setter"). Where a statement
// sequence (or an expression) of another function is, node for node, the body of a pinned function G that is still
// present - G's parameters and receiver standing for side-effect-free expressions of identical type, bound
// consistently, every other name denoting the same object - it is replaced by the call of G with those expressions.
// The two programs behave alike by construction (the arguments are pure, G's body is what was there). Only bodies
// that are a short list of statements without a result, or a single returned expression that contains a call, are
// used as patterns. Nothing is executed; the rewritten package must type-check or the pass is dropped.
func RerollPinned(p *Prog, overlay map[string][]byte, pinned map[string]bool) (map[string][]byte, []string) {
	info := p.Root.TypesInfo
	fset := p.Fset
	srcOf := map[string][]byte{}
	read := func(name string) []byte {
		if b, ok := srcOf[name]; ok {
			return b
		}
		b, ok := overlay[name]
		if !ok {
			b, _ = os.ReadFile(name)
		}
		srcOf[name] = b
		return b
	}
	fileOf := func(pos token.Pos) string { return fset.File(pos).Name() }
	off := func(pos token.Pos) int { return fset.File(pos).Offset(pos) }
	text := func(a, b token.Pos) string { return string(read(fileOf(a))[off(a):off(b)]) }

	type pattern struct {
		fd     *ast.FuncDecl
		obj    *types.Func
		params []*types.Var // receiver first (when there is one)
		recv   bool
		stmts  []ast.Stmt // statement form
		expr   ast.Expr   // expression form
	}
	var pats []*pattern
	for _, f := range p.Root.Syntax {
		for _, d := range f.Decls {
			fd, ok := d.(*ast.FuncDecl)
			if !ok || fd.Body == nil || len(fd.Body.List) == 0 || len(fd.Body.List) > 4 {
				continue
			}
			o, ok := info.Defs[fd.Name].(*types.Func)
			if !ok || !pinned[funcObjKey(o)] || o.Name() == "init" {
				continue
			}
			sig := o.Type().(*types.Signature)
			if sig.Variadic() || sig.TypeParams().Len() > 0 || sig.RecvTypeParams().Len() > 0 {
				continue
			}
			pt := &pattern{fd: fd, obj: o}
			if fd.Recv != nil {
				if len(fd.Recv.List) != 1 || len(fd.Recv.List[0].Names) != 1 {
					continue
				}
				v, _ := info.Defs[fd.Recv.List[0].Names[0]].(*types.Var)
				if v == nil {
					continue
				}
				pt.params = append(pt.params, v)
				pt.recv = true
			}
			named := true
			for _, fl := range fd.Type.Params.List {
				if len(fl.Names) == 0 {
					named = false
				}
				for _, n := range fl.Names {
					v, _ := info.Defs[n].(*types.Var)
					if v == nil || n.Name == "_" {
						named = false
					}
					pt.params = append(pt.params, v)
				}
			}
			if !named {
				continue
			}
			// no local declarations, no function literals, no labels in a pattern
			simple := true
			hasCall := false
			ast.Inspect(fd.Body, func(n ast.Node) bool {
				switch x := n.(type) {
				case *ast.FuncLit, *ast.LabeledStmt, *ast.DeclStmt, *ast.BranchStmt, *ast.ForStmt, *ast.RangeStmt, *ast.SwitchStmt, *ast.TypeSwitchStmt, *ast.SelectStmt, *ast.GoStmt, *ast.DeferStmt:
					simple = false
				case *ast.AssignStmt:
					if x.Tok == token.DEFINE {
						simple = false
					}
				case *ast.CallExpr:
					hasCall = true
				}
				return true
			})
			if !simple {
				continue
			}
			// every parameter is used (otherwise the call cannot be written)
			used := map[*types.Var]bool{}
			ast.Inspect(fd.Body, func(n ast.Node) bool {
				if id, ok := n.(*ast.Ident); ok {
					if v, ok := info.Uses[id].(*types.Var); ok {
						used[v] = true
					}
				}
				return true
			})
			all := true
			for _, v := range pt.params {
				if !used[v] {
					all = false
				}
			}
			if !all {
				continue
			}
			if sig.Results().Len() == 0 {
				hasRet := false
				ast.Inspect(fd.Body, func(n ast.Node) bool {
					if _, ok := n.(*ast.ReturnStmt); ok {
						hasRet = true
					}
					return true
				})
				// a statement body of some substance: at least two statements, or one compound statement
				_, compound := fd.Body.List[0].(*ast.IfStmt)
				if hasRet || (len(fd.Body.List) < 2 && !compound) {
					continue
				}
				pt.stmts = fd.Body.List
			} else if sig.Results().Len() == 1 && len(fd.Body.List) == 1 {
				ret, ok := fd.Body.List[0].(*ast.ReturnStmt)
				if !ok || len(ret.Results) != 1 || !hasCall {
					continue
				}
				// of some substance: a plain forwarding call (`return p.scanner.GetStartPos()`) is no written-out body
				weight := 0
				ast.Inspect(ret.Results[0], func(n ast.Node) bool {
					switch n.(type) {
					case *ast.CallExpr, *ast.BinaryExpr, *ast.UnaryExpr, *ast.IndexExpr, *ast.TypeAssertExpr, *ast.CompositeLit:
						weight++
					}
					return true
				})
				if weight < 2 {
					continue
				}
				pt.expr = ret.Results[0]
			} else {
				continue
			}
			pats = append(pats, pt)
		}
	}
	if len(pats) == 0 {
		return nil, nil
	}
	sort.Slice(pats, func(i, j int) bool { return pats[i].fd.Pos() < pats[j].fd.Pos() })

	var pure func(e ast.Expr) bool
	pure = func(e ast.Expr) bool {
		switch x := e.(type) {
		case *ast.Ident:
			return true
		case *ast.BasicLit:
			return true
		case *ast.ParenExpr:
			return pure(x.X)
		case *ast.SelectorExpr:
			if s, ok := info.Selections[x]; ok && s.Kind() != types.FieldVal {
				return false
			}
			return pure(x.X)
		case *ast.StarExpr:
			return pure(x.X)
		}
		return false
	}
	isParam := func(pt *pattern, id *ast.Ident) *types.Var {
		v, _ := info.Uses[id].(*types.Var)
		if v == nil {
			return nil
		}
		for _, q := range pt.params {
			if q == v {
				return v
			}
		}
		return nil
	}
	var match func(pt *pattern, a, b ast.Node, env map[*types.Var]string) bool
	matchList := func(pt *pattern, as, bs []ast.Expr, env map[*types.Var]string) bool {
		if len(as) != len(bs) {
			return false
		}
		for i := range as {
			if !match(pt, as[i], bs[i], env) {
				return false
			}
		}
		return true
	}
	match = func(pt *pattern, a, b ast.Node, env map[*types.Var]string) bool {
		if a == nil || b == nil {
			return a == nil && b == nil
		}
		for {
			pa, ok := a.(*ast.ParenExpr)
			if !ok {
				break
			}
			a = pa.X
		}
		if id, ok := a.(*ast.Ident); ok {
			if v := isParam(pt, id); v != nil {
				be, ok := b.(ast.Expr)
				if !ok || !pure(be) {
					return false
				}
				bt := info.TypeOf(be)
				if bt == nil || !types.Identical(bt, v.Type()) {
					return false
				}
				s := types.ExprString(be)
				if old, have := env[v]; have {
					return old == s
				}
				env[v] = s
				return true
			}
		}
		for {
			pb, ok := b.(*ast.ParenExpr)
			if !ok {
				break
			}
			b = pb.X
		}
		// type expressions
		if ae, ok := a.(ast.Expr); ok {
			if tv, ok := info.Types[ae]; ok && tv.IsType() {
				be, ok := b.(ast.Expr)
				if !ok {
					return false
				}
				tb, ok := info.Types[be]
				return ok && tb.IsType() && types.Identical(tv.Type, tb.Type)
			}
		}
		switch x := a.(type) {
		case *ast.Ident:
			y, ok := b.(*ast.Ident)
			if !ok {
				return false
			}
			ox, oy := info.Uses[x], info.Uses[y]
			if ox == nil || oy == nil {
				return false
			}
			return ox == oy
		case *ast.BasicLit:
			y, ok := b.(*ast.BasicLit)
			return ok && x.Kind == y.Kind && x.Value == y.Value
		case *ast.SelectorExpr:
			y, ok := b.(*ast.SelectorExpr)
			if !ok || x.Sel.Name != y.Sel.Name {
				return false
			}
			if ox, oy := info.Uses[x.Sel], info.Uses[y.Sel]; ox != oy {
				return false
			}
			return match(pt, x.X, y.X, env)
		case *ast.CallExpr:
			y, ok := b.(*ast.CallExpr)
			return ok && x.Ellipsis.IsValid() == y.Ellipsis.IsValid() && match(pt, x.Fun, y.Fun, env) && matchList(pt, x.Args, y.Args, env)
		case *ast.BinaryExpr:
			y, ok := b.(*ast.BinaryExpr)
			return ok && x.Op == y.Op && match(pt, x.X, y.X, env) && match(pt, x.Y, y.Y, env)
		case *ast.UnaryExpr:
			y, ok := b.(*ast.UnaryExpr)
			return ok && x.Op == y.Op && match(pt, x.X, y.X, env)
		case *ast.StarExpr:
			y, ok := b.(*ast.StarExpr)
			return ok && match(pt, x.X, y.X, env)
		case *ast.IndexExpr:
			y, ok := b.(*ast.IndexExpr)
			return ok && match(pt, x.X, y.X, env) && match(pt, x.Index, y.Index, env)
		case *ast.TypeAssertExpr:
			y, ok := b.(*ast.TypeAssertExpr)
			if !ok || (x.Type == nil) != (y.Type == nil) {
				return false
			}
			if x.Type != nil && !match(pt, x.Type, y.Type, env) {
				return false
			}
			return match(pt, x.X, y.X, env)
		case *ast.CompositeLit:
			y, ok := b.(*ast.CompositeLit)
			if !ok || !types.Identical(info.TypeOf(x), info.TypeOf(y)) {
				return false
			}
			return matchList(pt, x.Elts, y.Elts, env)
		case *ast.KeyValueExpr:
			y, ok := b.(*ast.KeyValueExpr)
			if !ok {
				return false
			}
			kx, okx := x.Key.(*ast.Ident)
			ky, oky := y.Key.(*ast.Ident)
			if okx && oky && info.Uses[kx] == nil && info.Uses[ky] == nil {
				return kx.Name == ky.Name && match(pt, x.Value, y.Value, env)
			}
			return match(pt, x.Key, y.Key, env) && match(pt, x.Value, y.Value, env)
		case *ast.ExprStmt:
			y, ok := b.(*ast.ExprStmt)
			return ok && match(pt, x.X, y.X, env)
		case *ast.IncDecStmt:
			y, ok := b.(*ast.IncDecStmt)
			return ok && x.Tok == y.Tok && match(pt, x.X, y.X, env)
		case *ast.AssignStmt:
			y, ok := b.(*ast.AssignStmt)
			return ok && x.Tok == y.Tok && x.Tok != token.DEFINE && matchList(pt, x.Lhs, y.Lhs, env) && matchList(pt, x.Rhs, y.Rhs, env)
		case *ast.BlockStmt:
			y, ok := b.(*ast.BlockStmt)
			if !ok || len(x.List) != len(y.List) {
				return false
			}
			for i := range x.List {
				if !match(pt, x.List[i], y.List[i], env) {
					return false
				}
			}
			return true
		case *ast.IfStmt:
			y, ok := b.(*ast.IfStmt)
			if !ok || x.Init != nil || y.Init != nil || (x.Else == nil) != (y.Else == nil) {
				return false
			}
			if !match(pt, x.Cond, y.Cond, env) || !match(pt, x.Body, y.Body, env) {
				return false
			}
			if x.Else != nil {
				return match(pt, x.Else, y.Else, env)
			}
			return true
		}
		return false
	}
	callText := func(pt *pattern, env map[*types.Var]string) string {
		var args []string
		ps := pt.params
		recv := ""
		if pt.recv {
			recv = env[ps[0]]
			ps = ps[1:]
		}
		for _, v := range ps {
			args = append(args, env[v])
		}
		if pt.recv {
			if strings.ContainsAny(recv, "*&") {
				recv = "(" + recv + ")"
			}
			return recv + "." + pt.obj.Name() + "(" + strings.Join(args, ", ") + ")"
		}
		return pt.obj.Name() + "(" + strings.Join(args, ", ") + ")"
	}
	complete := func(pt *pattern, env map[*types.Var]string) bool {
		for _, v := range pt.params {
			if _, ok := env[v]; !ok {
				return false
			}
		}
		return true
	}

	edits := map[string][]textEdit{}
	var done []string
	for _, f := range p.Root.Syntax {
		for _, d := range f.Decls {
			fd, ok := d.(*ast.FuncDecl)
			if !ok || fd.Body == nil {
				continue
			}
			fname := fileOf(fd.Pos())
			// a function that is itself a pattern is left as it is (two functions with the same body must not end up
			// calling each other)
			isPat := false
			for _, pt := range pats {
				if pt.fd == fd {
					isPat = true
				}
			}
			if isPat {
				continue
			}
			// name visibility: the function's name must not be shadowed here (a method is selected, a function named)
			lhs := map[ast.Expr]bool{}
			ast.Inspect(fd.Body, func(n ast.Node) bool {
				switch x := n.(type) {
				case *ast.AssignStmt:
					for _, l := range x.Lhs {
						lhs[l] = true
					}
				case *ast.IncDecStmt:
					lhs[x.X] = true
				case *ast.UnaryExpr:
					if x.Op == token.AND {
						lhs[x.X] = true
					}
				}
				return true
			})
			var try func(list []ast.Stmt)
			try = func(list []ast.Stmt) {
				for i := 0; i < len(list); i++ {
					for _, pt := range pats {
						if pt.stmts == nil || pt.fd == fd || i+len(pt.stmts) > len(list) {
							continue
						}
						env := map[*types.Var]string{}
						okAll := true
						for k := range pt.stmts {
							if !match(pt, pt.stmts[k], list[i+k], env) {
								okAll = false
								break
							}
						}
						if !okAll || !complete(pt, env) {
							continue
						}
						a, b := list[i].Pos(), list[i+len(pt.stmts)-1].End()
						edits[fname] = append(edits[fname], textEdit{off(a), off(b), callText(pt, env) + keepNewlines([]byte(text(a, b)))})
						done = append(done, fmt.Sprintf("%s: statements that are the body of %s replaced by its call", fd.Name.Name, funcObjKey(pt.obj)))
						i += len(pt.stmts) - 1
						break
					}
				}
			}
			ast.Inspect(fd.Body, func(n ast.Node) bool {
				switch x := n.(type) {
				case *ast.BlockStmt:
					try(x.List)
				case *ast.CaseClause:
					try(x.Body)
				case ast.Expr:
					if lhs[x] {
						return true
					}
					for _, pt := range pats {
						if pt.expr == nil || pt.fd == fd {
							continue
						}
						env := map[*types.Var]string{}
						if !match(pt, pt.expr, x, env) || !complete(pt, env) {
							continue
						}
						if !types.Identical(info.TypeOf(x), pt.obj.Type().(*types.Signature).Results().At(0).Type()) {
							continue
						}
						edits[fname] = append(edits[fname], textEdit{off(x.Pos()), off(x.End()), callText(pt, env) + keepNewlines([]byte(text(x.Pos(), x.End())))})
						done = append(done, fmt.Sprintf("%s: expression that is the body of %s replaced by its call", fd.Name.Name, funcObjKey(pt.obj)))
						return false
					}
				}
				return true
			})
		}
	}
	if len(done) == 0 {
		return nil, nil
	}
	out := map[string][]byte{}
	for name, es := range edits {
		sort.SliceStable(es, func(i, j int) bool { return es[i].start < es[j].start })
		var keep []textEdit
		end := -1
		for _, e := range es {
			if e.start < end {
				continue
			}
			keep = append(keep, e)
			end = e.end
		}
		out[name] = applyEdits(read(name), keep)
	}
	return out, done
}
