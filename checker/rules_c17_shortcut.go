package main

import (
	"fmt"
	"go/constant"
	"strings"

	"golang.org/x/tools/go/ssa"
)

// regexpMeta: the characters the regular-expression syntax gives a meaning to (regexp.QuoteMeta's set).
const regexpMeta = `\.+*?()|[]{}^$`

// c17RegexpShortcut: `regexp(s, p)` agrees with RE2 matching of p, and an invalid p is an error. A result that does
// not come from matching the compiled pattern - `strings.Contains(s, p)` for "plain" patterns - is a shortcut; it
// agrees with the engine only when p contains none of the characters the syntax gives a meaning to. The guard in
// front of the shortcut is read off the code: a module predicate over the pattern that consults a constant character
// set (strings.IndexByte / IndexRune / ContainsRune on a constant, strings.ContainsAny(p, set)), or
// regexp.QuoteMeta(p) == p. The set must hold every one of \.+*?()|[]{}^$ - a missing `{` lets `a{2,1}` (invalid)
// and `a{2}` (a repetition) through as plain text. A shortcut behind any other guard is left undecided.
func c17RegexpShortcut(c *Ctx, rule string) {
	f := c.BuiltinFn("regexp")
	if f == nil || len(f.Params) < 2 {
		return
	}
	pat := ssa.Value(f.Params[1])
	// results that do not come from a Match call
	isMatchRooted := func(v ssa.Value) bool {
		for _, rt := range plainOrigins.Roots(v) {
			switch {
			case rt.Kind == "const":
			case rt.Kind == "call" && rt.Fn != nil && (strings.HasPrefix(rt.Fn.String(), "(*regexp.Regexp).Match") || rt.Fn.String() == "regexp.MatchString" || rt.Fn.String() == "regexp.Match"):
			default:
				return false
			}
		}
		return true
	}
	n := 0
	instrs(f, func(b *ssa.BasicBlock, i int, in ssa.Instruction) {
		ret, ok := in.(*ssa.Return)
		if !ok || len(ret.Results) == 0 || isMatchRooted(ret.Results[0]) {
			return
		}
		if len(ret.Results) > 1 && !isNilConst(ret.Results[len(ret.Results)-1]) {
			return // an error return
		}
		n++
		cons := fmt.Sprintf("shortcut#%d", n)
		// the guards that dominate the shortcut: If conditions whose taken edge leads here
		verdict, why := Undecided, "the result "+describeValue(ret.Results[0])+" does not come from matching the compiled pattern, and no guard of a known form (a constant set of the syntax characters, QuoteMeta(p) == p) stands in front of it"
		for d := b; d != nil; d = d.Idom() {
			id := d.Idom()
			if id == nil || len(id.Instrs) == 0 {
				continue
			}
			iff, isIf := id.Instrs[len(id.Instrs)-1].(*ssa.If)
			if !isIf || len(id.Succs) != 2 {
				continue
			}
			taken := -1
			for k, s := range id.Succs {
				if s == d && len(d.Preds) == 1 {
					taken = k
				}
			}
			if taken < 0 {
				continue
			}
			cond := iff.Cond
			neg := taken == 1
			if u, ok := cond.(*ssa.UnOp); ok && u.Op.String() == "!" {
				cond, neg = u.X, !neg
			}
			switch x := cond.(type) {
			case *ssa.Call:
				g := calleeOf(x)
				if g != nil && (g.String() == "strings.ContainsAny" || g.String() == "strings.IndexAny") && len(x.Call.Args) == 2 && x.Call.Args[0] == pat {
					// the set consulted in place: the shortcut is taken when none of its characters occurs
					k, isK := x.Call.Args[1].(*ssa.Const)
					if g.String() != "strings.ContainsAny" || !neg || !isK || k.Value == nil || k.Value.Kind() != constant.String {
						continue
					}
					set := constant.StringVal(k.Value)
					missing := ""
					for _, m := range regexpMeta {
						if !strings.ContainsRune(set, m) {
							missing += string(m)
						}
					}
					if missing == "" {
						verdict, why = OK, ""
					} else {
						verdict, why = Violation, fmt.Sprintf("the shortcut is taken when none of %q occurs in the pattern, but the regular-expression syntax also gives a meaning to %q: such a pattern is matched as plain text (an invalid one is not reported, a valid one decides differently from the engine)", set, missing)
					}
					break
				}
				if g == nil || !c.inModule(g) || len(x.Call.Args) == 0 || neg {
					continue
				}
				usesPat := false
				for _, a := range x.Call.Args {
					if a == pat {
						usesPat = true
					}
				}
				if !usesPat {
					continue
				}
				set, found := metaSetOf(g)
				if !found {
					continue
				}
				missing := ""
				for _, m := range regexpMeta {
					if !strings.ContainsRune(set, m) {
						missing += string(m)
					}
				}
				if missing == "" {
					verdict, why = OK, ""
				} else {
					verdict, why = Violation, fmt.Sprintf("the shortcut is taken when %s finds none of %q in the pattern, but the regular-expression syntax also gives a meaning to %q: such a pattern is matched as plain text (an invalid one is not reported, a valid one decides differently from the engine)", c.P.FuncKey(g), set, missing)
				}
			case *ssa.BinOp:
				// regexp.QuoteMeta(p) == p
				if x.Op.String() == "==" && !neg {
					for _, pair := range [][2]ssa.Value{{x.X, x.Y}, {x.Y, x.X}} {
						if call, ok := pair[0].(*ssa.Call); ok && pair[1] == pat {
							if g := calleeOf(call); g != nil && g.String() == "regexp.QuoteMeta" && call.Call.Args[0] == pat {
								verdict, why = OK, ""
							}
						}
					}
				}
			}
			if verdict != Undecided {
				break
			}
		}
		switch verdict {
		case OK:
			c.R.Add(rule, cons, c.P.InstrPos(in), OK, "")
		case Violation:
			c.R.Add(rule, cons, c.P.InstrPos(in), Violation, why)
		default:
			c.R.Undecided(rule, cons, c.P.InstrPos(in), why)
		}
	})
	c.R.Analysed["regexp_shortcuts"] = n
}

// metaSetOf: the constant character set a predicate over a string consults (the constant operand of
// strings.IndexByte / IndexRune / ContainsRune / ContainsAny / IndexAny), when it consults exactly one.
func metaSetOf(g *ssa.Function) (string, bool) {
	set, n := "", 0
	instrs(g, func(b *ssa.BasicBlock, i int, in ssa.Instruction) {
		call, ok := in.(*ssa.Call)
		if !ok {
			return
		}
		cal := calleeOf(call)
		if cal == nil {
			return
		}
		switch cal.String() {
		case "strings.IndexByte", "strings.IndexRune", "strings.ContainsRune", "strings.ContainsAny", "strings.IndexAny", "bytes.IndexByte":
			for _, a := range call.Call.Args {
				if k, ok := a.(*ssa.Const); ok && k.Value != nil && k.Value.Kind() == constant.String {
					set = constant.StringVal(k.Value)
					n++
				}
			}
		}
	})
	return set, n == 1
}
