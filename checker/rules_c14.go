package main

import (
	"fmt"
	"go/ast"
	"go/constant"
	"go/token"
	"sort"
	"strings"

	"golang.org/x/tools/go/ssa"
)

func init() {
	register("C14",
		"the operator lexeme table and longest-match behaviour of the scanner's first-character switch (extracted by folding Scan over every 1-3 character operator text), advance = lexeme length, Scan returns the token it stored, keyword table completeness and whole-word lookup, literal white-space / line-break cases agree with the class predicates, range tables well-formed for binary search, the preceding-line-break flag is reset per token, set on every line-break path and read by HasPrecedingLineBreak. The look-ahead helpers have their specified meaning (cursor/counter/hit/test shape of their loop; an early bail-out only when provably fewer than n+1 bytes remain, by linear arithmetic over position, end and n); between tokens exactly the one decoded and classified rune is skipped per trip.",
		"membership of the ES5 identifier tables and of the white-space set against the ECMAScript standard (not available offline), and tiling / spacing-insensitivity as value statements beyond progress and lexeme length.",
		runC14)
}

func runC14(c *Ctx) {
	scan := c.scanFn()
	if !c.need("C14.anchor", scan, "(*Scanner).Scan") {
		return
	}
	c14Lexemes(c)
	c14ReturnsStored(c)
	c14Keywords(c, "C14.keywords")
	c14FastPath(c, "C14.fastpath-agrees")
	c14PeekHelpers(c, "C14.peek-helpers")
	c14TriviaStep(c)
	c14RangeLookup(c)
	c14LookaheadGuards(c)
	c14RangeTables(c)
	c14ClassTables(c)
	c14Flag(c)
	// the same-line rule of C02 is what makes "a line break may not precede . !. (" true
	if ro := c.needRoles("C14.roles"); ro != nil {
		c02SameLine(c, ro)
	}
}

// c14ClassTables: each identifier class predicate consults its own range table for non-ASCII
// code points, and the scanner uses the start class for the first character and the part class
// for the following ones.
func c14ClassTables(c *Ctx) {
	const rule = "C14.class-tables"
	tables := func(f *ssa.Function) map[string]bool {
		out := map[string]bool{}
		if f == nil {
			return out
		}
		rr := c.P.Reach([]*ssa.Function{f}, c.inModule, nil)
		for _, g := range rr.Order {
			instrs(g, func(b *ssa.BasicBlock, i int, in ssa.Instruction) {
				call, ok := in.(*ssa.Call)
				if !ok {
					return
				}
				for _, a := range call.Call.Args {
					if u, ok := a.(*ssa.UnOp); ok {
						if gl, ok := u.X.(*ssa.Global); ok {
							for _, canon := range []string{"unicodeES5IdentifierStart", "unicodeES5IdentifierPart"} {
								if gl.Name() == c.P.alias(canon) {
									out[canon] = true
								}
							}
						}
					}
				}
			})
		}
		return out
	}
	st, pt := c.fn("IsIdentifierStart"), c.fn("IsIdentifierPart")
	if !c.need(rule, st, "IsIdentifierStart") || !c.need(rule, pt, "IsIdentifierPart") {
		return
	}
	ts, tp := tables(st), tables(pt)
	c.R.Check(rule, "start-uses-start-table", c.P.Pos(st.Pos()), ts["unicodeES5IdentifierStart"] && !ts["unicodeES5IdentifierPart"], "IsIdentifierStart must consult exactly the identifier-start range table")
	c.R.Check(rule, "part-uses-part-table", c.P.Pos(pt.Pos()), tp["unicodeES5IdentifierPart"], "IsIdentifierPart must consult the identifier-part range table (combining marks, digits and connectors of other scripts continue an identifier but cannot start one)")
	// scanner usage: the default arm tests the start class on the decoded rune; the continuation loop uses the part class
	scan := c.scanFn()
	ch, _ := decodedRune(scan)
	startUse, partUse := false, false
	units := []*ssa.Function{scan}
	instrs(scan, func(b *ssa.BasicBlock, i int, in ssa.Instruction) {
		if call, ok := in.(*ssa.Call); ok {
			if g := calleeOf(call); g != nil && c.inModule(g) && g != scan && typeName(recvType(g)) == "Scanner" && peekKind(g) == "" && !c.scannerDiagFns()[g] && len(g.Blocks) > 0 {
				units = append(units, g) // helpers of single arms
			}
		}
	})
	for _, u := range units {
		instrs(u, func(b *ssa.BasicBlock, i int, in ssa.Instruction) {
			call, ok := in.(*ssa.Call)
			if !ok {
				return
			}
			if cal := calleeOf(call); cal != nil && c.inModule(cal) && u == scan {
				if t := tables(cal); t["unicodeES5IdentifierStart"] && !t["unicodeES5IdentifierPart"] && len(call.Call.Args) > 0 && call.Call.Args[len(call.Call.Args)-1] == ch {
					startUse = true
				}
			}
			if peekKind(calleeOf(call)) == "check" {
				if g := fnValue(call.Call.Args[2]); g != nil && tables(g)["unicodeES5IdentifierPart"] {
					partUse = true
				}
			}
		})
	}
	c.R.Check(rule, "scanner-first-char", c.P.Pos(scan.Pos()), startUse, "an identifier token must begin on the identifier-start class of the decoded character")
	c.R.Check(rule, "scanner-following-chars", c.P.Pos(scan.Pos()), partUse, "an identifier token must continue over the identifier-part class")
	c.R.Floor(rule, 4)
}

const sentinel = " "

func specAlphabet() []rune {
	set := map[rune]bool{}
	for lx := range specLexemes {
		for _, r := range lx {
			set[r] = true
		}
	}
	var out []rune
	for r := range set {
		out = append(out, r)
	}
	sort.Slice(out, func(i, j int) bool { return out[i] < out[j] })
	return out
}

func specLongest(t string) (string, string) {
	best := ""
	for lx := range specLexemes {
		if strings.HasPrefix(t, lx) && len(lx) > len(best) {
			best = lx
		}
	}
	return best, specLexemes[best]
}

// scanVerdict folds Scan on text and compares with the expected token/advance.
func (c *Ctx) scanVerdict(text string, wantTok int64, wantAdv int) (tokOK, advOK bool, why string) {
	o := c.ScanOn(text)
	if len(o.Results) != 1 {
		return false, false, fmt.Sprintf("folding Scan on %q leaves %d return paths (expected exactly one)", text, len(o.Results))
	}
	r := o.Results[0]
	tokOK = r.Token.K == lConst && r.Token.C.Kind() == constant.Int && constant.Compare(r.Token.C, token.EQL, constant.MakeInt64(wantTok))
	advOK = r.Adv.K == lConst && r.Adv.C.Kind() == constant.Int && constant.Compare(r.Adv.C, token.EQL, constant.MakeInt64(int64(wantAdv)))
	got := "?"
	if r.Token.K == lConst {
		if n, ok := constant.Int64Val(r.Token.C); ok {
			got = c.SKName(n)
		}
	}
	why = fmt.Sprintf("on input %q the scanner yields token %s and advances %s bytes; longest match requires %s and %d", text, got, r.Adv, c.SKName(wantTok), wantAdv)
	return
}

func c14Lexemes(c *Ctx) {
	const rule = "C14.lexeme-table"
	scan := c.scanFn()
	pos := c.P.Pos(scan.Pos())
	// one obligation per lexeme of the statement
	var lxs []string
	for lx := range specLexemes {
		lxs = append(lxs, lx)
	}
	sort.Strings(lxs)
	for _, lx := range lxs {
		want := c.SK(specLexemes[lx])
		tokOK, advOK, why := c.scanVerdict(lx+sentinel, want, len(lx))
		c.R.Check(rule, "lexeme:"+lx, pos, tokOK, why)
		c.R.Check("C14.lexeme-advance", "lexeme:"+lx, pos, advOK, why)
	}
	// longest match on every 1..3 character text over the operator alphabet
	alpha := specAlphabet()
	ext := append(append([]rune{}, alpha...), ' ')
	// third characters that can matter: those of 3-character lexemes of the statement, those the
	// scanner itself peeks at distance 2, and two that match nothing
	zset := map[rune]bool{' ': true, '+': true}
	for lx := range specLexemes {
		if rs := []rune(lx); len(rs) == 3 {
			zset[rs[2]] = true
		}
	}
	instrs(scan, func(b *ssa.BasicBlock, i int, in ssa.Instruction) {
		if call, ok := in.(*ssa.Call); ok && peekKind(calleeOf(call)) == "equal" {
			if n, ok := constIntArg(call.Call.Args[1]); ok && n >= 2 {
				if ch, ok := constIntArg(call.Call.Args[2]); ok {
					zset[rune(ch)] = true
				}
			}
		}
	})
	var zs []rune
	for z := range zset {
		zs = append(zs, z)
	}
	sort.Slice(zs, func(i, j int) bool { return zs[i] < zs[j] })
	n := 0
	for _, x := range alpha {
		for _, y := range ext {
			bad := ""
			for _, z := range zs {
				t := string([]rune{x, y, z}) + sentinel
				lx, tokName := specLongest(t)
				if lx == "" {
					continue
				}
				n++
				tokOK, advOK, why := c.scanVerdict(t, c.SK(tokName), len(lx))
				if (!tokOK || !advOK) && bad == "" {
					bad = why
				}
			}
			c.R.Check("C14.longest-match", "prefix:"+string([]rune{x, y}), pos, bad == "", bad)
		}
	}
	c.R.Analysed["scan_folds"] = n + len(lxs)
	c.R.Floor(rule, 33)
	c.R.Floor("C14.lexeme-advance", 33)
	c.R.Floor("C14.longest-match", 400)
}

// tokenStoreBefore: the closest store to Scanner.token that dominates `at`.
func tokenStoreBefore(at ssa.Instruction) *ssa.Store {
	b := at.Block()
	idx := posOf(at).I - 1
	for b != nil {
		for i := idx; i >= 0; i-- {
			if st, ok := b.Instrs[i].(*ssa.Store); ok && isScannerField(st.Addr, "token") {
				return st
			}
		}
		b = b.Idom()
		if b != nil {
			idx = len(b.Instrs) - 1
		}
	}
	return nil
}

func c14ReturnsStored(c *Ctx) {
	const rule = "C14.returns-stored-token"
	scan := c.scanFn()
	n := 0
	perArm := map[string]int{}
	seenFn := map[*ssa.Function]bool{}
	var examine func(scan *ssa.Function, prefix string, depth int)
	examine = func(scan *ssa.Function, prefix string, depth int) {
		instrs(scan, func(b *ssa.BasicBlock, i int, in ssa.Instruction) {
			ret, ok := in.(*ssa.Return)
			if !ok || len(ret.Results) != 1 {
				return
			}
			n++
			arm := prefix
			if prefix == "" {
				arm = c.scanArmOf(b)
			}
			perArm[arm]++
			cons := fmt.Sprintf("arm %s return#%d", arm, perArm[arm])
			v := ret.Results[0]
			// (c) `return s.armHelper(...)`: the helper's returns are judged instead
			if call, ok := v.(*ssa.Call); ok && depth < 3 {
				if g := calleeOf(call); g != nil && c.inModule(g) && typeName(recvType(g)) == "Scanner" && peekKind(g) == "" && len(g.Blocks) > 0 && isTokStoreFree(scan, in) {
					if !seenFn[g] {
						seenFn[g] = true
						examine(g, "helper "+c.P.FuncKey(g), depth+1)
					}
					c.R.Add(rule, cons, c.P.InstrPos(ret), OK, "")
					return
				}
			}
			// (a) a load of Scanner.token: some store must lie on every path to it within this call
			if u, ok := v.(*ssa.UnOp); ok && isScannerField(u.X, "token") {
				isTokStore := func(x ssa.Instruction) bool {
					if st, ok := x.(*ssa.Store); ok && isScannerField(st.Addr, "token") {
						return true
					}
					return false
				}
				stale := pathExists(scan, nil, func(x ssa.Instruction) bool { return x == in }, isTokStore, nil)
				c.R.Check(rule, cons, c.P.InstrPos(ret), !stale, "Scan returns the current-token field on a path that never stored it: the caller sees the previous token again")
				return
			}
			// (b) any other value: the closest dominating store must store that very value
			st := tokenStoreBefore(in)
			same := false
			if st != nil {
				if st.Val == v {
					same = true
				}
				k1, ok1 := st.Val.(*ssa.Const)
				k2, ok2 := v.(*ssa.Const)
				if ok1 && ok2 && k1.Value != nil && k2.Value != nil && constant.Compare(k1.Value, token.EQL, k2.Value) {
					same = true
				}
				// unreachable trailing return after an infinite loop is vacuous
			}
			if len(b.Preds) == 0 && b != scan.Blocks[0] {
				c.R.Add(rule, cons, c.P.InstrPos(ret), OK, "")
				return
			}
			c.R.Check(rule, cons, c.P.InstrPos(ret), same, "Scan returns "+shortVal(v)+" without having stored it as the current token: the parser, which reads the stored token, sees a different token than the one returned")
		})
	}
	examine(scan, "", 0)
	c.R.Floor(rule, 15)
}

func c14Keywords(c *Ctx, rule string) {
	// tokens[k] strings from the package initializer
	tab := c.globalStringTable("tokens")
	if tab == nil {
		c.R.Undecided(rule, "ANCHOR-UNRESOLVED tokens table", "-", "the token text table was not found in the package initializer")
		return
	}
	seen := map[string]int64{}
	nkw := 0
	var first, last int64 = -1, -1
	for _, k := range c.AllKinds() {
		kw, ok := c.foldKindMethod("IsKeyword", k)
		if !ok {
			c.R.Undecided(rule, "kind:"+c.SKName(k), "-", "IsKeyword does not fold")
			continue
		}
		if !kw {
			continue
		}
		nkw++
		if first < 0 {
			first = k
		}
		last = k
		txt := tab[k]
		okWord := txt != ""
		for _, r := range txt {
			if !(r >= 'a' && r <= 'z' || r >= 'A' && r <= 'Z' || r == '_' || r == '$') {
				okWord = false
			}
		}
		_, dup := seen[txt]
		seen[txt] = k
		c.R.Check(rule, "text:"+c.SKName(k), "types.go", okWord && !dup, fmt.Sprintf("keyword %s has text %q in the token table: it must be a non-empty, distinct identifier word or the identifier scanner can never produce it", c.SKName(k), txt))
		// and the token is an identifier-like token for the parser
		isId, ok2 := c.foldKindMethod("IsIdentifier", k)
		c.R.Check(rule, "identifier-class:"+c.SKName(k), "types.go", ok2 && isId, "keywords are identifier names (TokenIsIdentifierOrKeyword / IsIdentifier must hold)")
	}
	// init fills the keyword map over exactly [first,last]
	kwG := c.P.Global("keywords")
	found := false
	for _, f := range c.P.ModFuncs {
		if !strings.HasPrefix(f.Name(), "init") {
			continue
		}
		instrs(f, func(b *ssa.BasicBlock, i int, in ssa.Instruction) {
			mu, ok := in.(*ssa.MapUpdate)
			if !ok {
				return
			}
			if u, ok := mu.Map.(*ssa.UnOp); !ok || u.X != ssa.Value(kwG) {
				// ... or a map made here and then stored into the keyword global
				mk, isMk := mu.Map.(*ssa.MakeMap)
				if !isMk {
					return
				}
				if _, isLoopVar := mu.Value.(*ssa.Phi); !isLoopVar {
					return // a map literal: read below from the package initialiser
				}
				stored := false
				instrs(f, func(_ *ssa.BasicBlock, _ int, x ssa.Instruction) {
					if st, isSt := x.(*ssa.Store); isSt && st.Addr == ssa.Value(kwG) {
						for _, rt := range plainOrigins.Roots(st.Val) {
							if rt.V == ssa.Value(mk) && len(rt.Path) == 0 {
								stored = true
							}
						}
					}
				})
				if !stored {
					return
				}
			}
			found = true
			// value: the loop variable; key: tokens[loop variable]
			phi, ok := mu.Value.(*ssa.Phi)
			if !ok {
				// `for i, text := range tokens[first:last+1] { keywords[text] = first + i }`
				if l, h, okR := c.rangeSliceUpdate(mu); okR {
					c.R.Check(rule, "init-range", c.P.InstrPos(in), l == first && h-1 == last, fmt.Sprintf("init fills the keyword map for kinds [%d,%d] keyed by the token table; the keyword kinds are [%d,%d]", l, h-1, first, last))
					return
				}
				c.R.Undecided(rule, "init-range", c.P.InstrPos(in), "keyword map value is not a loop variable")
				return
			}
			keyOK := false
			for _, rt := range plainOrigins.Roots(mu.Key) {
				if rt.Kind == "global" && rt.V.(*ssa.Global).Name() == c.P.alias("tokens") {
					keyOK = true
				}
			}
			var lo, hi int64 = -1, -1
			for _, e := range phi.Edges {
				if n, ok := constIntArg(e); ok {
					lo = n
				}
			}
			for _, ref := range *phi.Referrers() {
				if bo, ok := ref.(*ssa.BinOp); ok {
					if n, ok := constIntArg(bo.Y); ok && bo.X == ssa.Value(phi) {
						switch bo.Op {
						case token.LEQ:
							hi = n
						case token.LSS:
							hi = n - 1
						}
					}
				}
			}
			c.R.Check(rule, "init-range", c.P.InstrPos(in), keyOK && lo == first && hi == last, fmt.Sprintf("init fills the keyword map for kinds [%d,%d] keyed by the token table (key from table=%v); the keyword kinds are [%d,%d]", lo, hi, keyOK, first, last))
		})
	}
	if !found {
		// a builder function whose result initialises the map: `for i, text := range tokens[first:last+1] { m[text] = first + i }`
		if lo, hi, pos, ok := c.keywordBuilderRange(kwG); ok {
			found = true
			c.R.Check(rule, "init-range", pos, lo == first && hi == last, fmt.Sprintf("the keyword map is built for kinds [%d,%d] keyed by the token table; the keyword kinds are [%d,%d]", lo, hi, first, last))
		}
	}
	if !found {
		// the map written as a literal: read its constant contents from the package initialiser
		literalOK := false
		why := "no init writes the keyword map"
		if kf := c.fn("KeywordFromString"); kf != nil {
			var load ssa.Value
			instrs(kf, func(b *ssa.BasicBlock, i int, in ssa.Instruction) {
				if lk, ok := in.(*ssa.Lookup); ok {
					if u, ok := lk.X.(*ssa.UnOp); ok && u.X == ssa.Value(kwG) {
						load = u
					}
				}
			})
			if load != nil {
				fo := &Folder{P: c.P, MaxDepth: 1}
				if tab2, ok := fo.constTable(nil, load); ok {
					literalOK = true
					for _, k := range c.AllKinds() {
						if kw, ok := c.foldKindMethod("IsKeyword", k); ok && kw {
							lv, hit := tab2["String:"+constant.MakeString(tab[k]).ExactString()]
							if !hit || lv.K != lConst || !constant.Compare(lv.C, token.EQL, constant.MakeInt64(k)) {
								literalOK = false
								why = fmt.Sprintf("the keyword map literal does not map %q to %s", tab[k], c.SKName(k))
							}
						}
					}
					if len(tab2) != nkw {
						literalOK = false
						why = fmt.Sprintf("the keyword map literal has %d entries for %d keyword kinds", len(tab2), nkw)
					}
				} else {
					why = "the keyword map is neither filled by an init loop over the token table nor a constant literal"
				}
			}
		}
		c.R.Check(rule, "init-range", "-", literalOK, why)
	}
	// lookup: KeywordFromString returns the table entry or SK_Unknown
	if kf := c.fn("KeywordFromString"); kf != nil {
		okShape := false
		instrs(kf, func(b *ssa.BasicBlock, i int, in ssa.Instruction) {
			if lk, ok := in.(*ssa.Lookup); ok {
				if u, ok := lk.X.(*ssa.UnOp); ok && u.X == ssa.Value(kwG) && lk.Index == ssa.Value(kf.Params[0]) {
					okShape = true
				}
			}
		})
		c.R.Check(rule, "lookup-whole-text", c.P.Pos(kf.Pos()), okShape, "keywords must be looked up by the whole identifier text (map index by the parameter itself)")
	}
	// the identifier arm looks the complete token text up, once, after the identifier loop
	git := c.method("Scanner", "getIdentifierToken")
	if git != nil {
		argOK := false
		instrs(git, func(b *ssa.BasicBlock, i int, in ssa.Instruction) {
			call, ok := in.(*ssa.Call)
			if !ok || calleeOf(call) != c.fn("KeywordFromString") {
				return
			}
			if u, ok := call.Call.Args[0].(*ssa.UnOp); ok && isScannerField(u.X, "tokenValue") {
				argOK = true
				return
			}
			// ... or on a local that is the token value: the very value is stored into the token value before the
			// lookup, or on every path from the lookup to the return (a keyword is a legal member name: its token
			// needs its text just as an identifier does)
			v := call.Call.Args[0]
			isStore := func(x ssa.Instruction) bool {
				st, ok := x.(*ssa.Store)
				return ok && isScannerField(st.Addr, "tokenValue") && st.Val == v
			}
			dominated := false
			instrs(git, func(_ *ssa.BasicBlock, _ int, x ssa.Instruction) {
				if isStore(x) && instrDominates(x, in) {
					dominated = true
				}
			})
			if dominated || !pathExists(git, in, isReturn, isStore, nil) {
				argOK = true
			}
		})
		c.R.Check(rule, "identifier-lookup-arg", c.P.Pos(git.Pos()), argOK, "the keyword lookup must be made on the scanned token value (the text that is looked up is the text the token carries, on the keyword path too)")
		// on identifier input the folded Scan reaches getIdentifierToken and stores tokenValue = text[tokenPos:pos]
		o := c.ScanOn("a ")
		reached := false
		// the lookup call: in Scan itself, or in the arm helper Scan hands the identifier arm to
		var lookups []ssa.CallInstruction
		kfn := c.fn("KeywordFromString")
		isLookup := func(call ssa.CallInstruction) bool {
			g := calleeOf(call)
			if g == nil {
				return false
			}
			if g == git && git != c.scanFn() {
				return true
			}
			return g == kfn && kfn != nil && call.Parent() != git // the lookup written out where the word is scanned
		}
		for _, call := range o.Fold.ReachableCalls() {
			if isLookup(call) {
				lookups = append(lookups, call)
				continue
			}
			if g := calleeOf(call); g != nil && g != git && c.inModule(g) && typeName(recvType(g)) == "Scanner" && peekKind(g) == "" {
				instrs(g, func(_ *ssa.BasicBlock, _ int, x ssa.Instruction) {
					if inner, ok := x.(ssa.CallInstruction); ok && (isLookup(inner) || calleeOf(inner) == git && git != c.scanFn()) {
						lookups = append(lookups, inner)
					}
				})
			}
		}
		if git == c.scanFn() {
			// the lookup sits in Scan itself
			for _, call := range o.Fold.ReachableCalls() {
				if calleeOf(call) == kfn && kfn != nil {
					lookups = append(lookups, call)
				}
			}
		}
		for _, call := range lookups {
			if true {
				reached = true
				// the tokenValue store before it slices text[tokenPos:pos]
				sliceOK := false
				for b := call.Block(); b != nil; b = b.Idom() {
					for _, in := range b.Instrs {
						st, ok := in.(*ssa.Store)
						if !ok || !isScannerField(st.Addr, "tokenValue") {
							continue
						}
						for _, rt := range plainOrigins.Roots(st.Val) {
							_ = rt
						}
						// the word itself, or the word with the continuation after an escape appended, on every path
						var whole func(v ssa.Value, depth int) bool
						whole = func(v ssa.Value, depth int) bool {
							switch x := v.(type) {
							case *ssa.Convert:
								if sl, ok := x.X.(*ssa.Slice); ok {
									lo, okl := sl.Low.(*ssa.UnOp)
									hi, okh := sl.High.(*ssa.UnOp)
									return okl && okh && isScannerField(lo.X, "tokenPos") && isScannerField(hi.X, "pos")
								}
							case *ssa.Phi:
								if depth > 3 {
									return false
								}
								for _, e := range x.Edges {
									if !whole(e, depth+1) {
										return false
									}
								}
								return len(x.Edges) > 0
							case *ssa.BinOp:
								return x.Op == token.ADD && depth <= 3 && whole(x.X, depth+1)
							}
							return false
						}
						if whole(st.Val, 0) {
							sliceOK = true
						}
					}
				}
				c.R.Check(rule, "identifier-text-range", c.P.InstrPos(call.(ssa.Instruction)), sliceOK, "the identifier text handed to the keyword lookup must be text[tokenPos:pos] (the whole word)")
				// not inside the identifier loop
				inLoop := false
				for _, l := range naturalLoops(call.Parent()) {
					if call.Parent() == c.scanFn() && l.Header == c.scanFn().Blocks[1] {
						continue // the token loop itself
					}
					if l.Body[call.Block()] {
						inLoop = true
					}
				}
				c.R.Check(rule, "identifier-lookup-after-loop", c.P.InstrPos(call.(ssa.Instruction)), !inLoop, "the keyword lookup must happen once, after the identifier loop")
			}
		}
		c.R.Check(rule, "identifier-arm", c.P.Pos(c.scanFn().Pos()), reached, "scanning an identifier character must reach the keyword lookup")
	}
	c.R.Floor(rule, 12)
}

// scanArmOf names the first-rune arm of Scan a block belongs to: the rune
// constants whose equality test leads to the closest dominating arm block.
func (c *Ctx) scanArmOf(b *ssa.BasicBlock) string {
	scan := c.scanFn()
	ch, _ := decodedRune(scan)
	arms := runeSwitchArms(scan, ch)
	byBlock := map[*ssa.BasicBlock][]rune{}
	for r, blk := range arms {
		byBlock[blk] = append(byBlock[blk], r)
	}
	for x := b; x != nil; x = x.Idom() {
		if rs, ok := byBlock[x]; ok {
			sort.Slice(rs, func(i, j int) bool { return rs[i] < rs[j] })
			var parts []string
			for _, r := range rs {
				parts = append(parts, fmt.Sprintf("%q", r))
			}
			return strings.Join(parts, ",")
		}
	}
	// before the decode: end of input; after all tests: default
	if ch != nil {
		if in, ok := ch.(ssa.Instruction); ok && in.Block().Dominates(b) && in.Block() != b {
			return "default"
		}
	}
	return "pre-decode"
}

// globalStringTable reads `var name = [...]string{k: "..."}` from the package initializer.
func (c *Ctx) globalStringTable(name string) map[int64]string {
	g := c.P.Global(name)
	if g == nil {
		return nil
	}
	ini := c.P.Pkg.Func("init")
	if ini == nil {
		return nil
	}
	out := map[int64]string{}
	found := false
	instrs(ini, func(b *ssa.BasicBlock, i int, in ssa.Instruction) {
		st, ok := in.(*ssa.Store)
		if !ok {
			return
		}
		ia, ok := st.Addr.(*ssa.IndexAddr)
		if !ok {
			return
		}
		base := ia.X
		if base != ssa.Value(g) {
			// composite literal built in a temporary then stored into g
			isTmp := false
			if a, ok := base.(*ssa.Alloc); ok {
				for _, ref := range *a.Referrers() {
					if u, ok := ref.(*ssa.UnOp); ok {
						for _, r2 := range *u.Referrers() {
							if s2, ok := r2.(*ssa.Store); ok && s2.Addr == ssa.Value(g) {
								isTmp = true
							}
						}
					}
				}
			}
			if !isTmp {
				return
			}
		}
		idx, ok1 := constIntArg(ia.Index)
		k, ok2 := st.Val.(*ssa.Const)
		if ok1 && ok2 && k.Value != nil && k.Value.Kind() == constant.String {
			out[idx] = constant.StringVal(k.Value)
			found = true
		}
	})
	if !found {
		return nil
	}
	return out
}

// switchRuneArms: constants compared with the decoded rune in f, with the arm block each selects.
func runeSwitchArms(f *ssa.Function, ch ssa.Value) map[rune]*ssa.BasicBlock {
	out := map[rune]*ssa.BasicBlock{}
	instrs(f, func(b *ssa.BasicBlock, i int, in ssa.Instruction) {
		iff, ok := in.(*ssa.If)
		if !ok {
			return
		}
		bo, ok := iff.Cond.(*ssa.BinOp)
		if !ok || (bo.Op != token.EQL && bo.Op != token.NEQ) {
			return
		}
		k := bo.Y
		if bo.X != ch {
			if bo.Y != ch {
				return
			}
			k = bo.X
		}
		if n, ok := constIntArg(k); ok {
			if bo.Op == token.EQL {
				out[rune(n)] = b.Succs[0]
			} else if _, dup := out[rune(n)]; !dup {
				// `if ch != 'x' { ... continue/break }` : the arm for 'x' is what follows
				out[rune(n)] = b.Succs[1]
			}
		}
	})
	return out
}

func decodedRune(f *ssa.Function) (ch, size ssa.Value) {
	instrs(f, func(b *ssa.BasicBlock, i int, in ssa.Instruction) {
		ex, ok := in.(*ssa.Extract)
		if !ok || ch != nil && size != nil {
			return
		}
		call, ok := ex.Tuple.(*ssa.Call)
		if !ok {
			return
		}
		if cal := calleeOf(call); cal == nil || cal.String() != "unicode/utf8.DecodeRune" {
			return
		}
		if ex.Index == 0 && ch == nil {
			ch = ex
		}
		if ex.Index == 1 && size == nil {
			size = ex
		}
	})
	return
}

// flagConst: the value of TF_PrecedingLineBreak.
func (c *Ctx) lineBreakFlag() int64 {
	v, _ := c.P.Const("TF_PrecedingLineBreak")
	return v
}

// armSetsFlag: the block ORs the line-break flag into Scanner.tokenFlags.
func (c *Ctx) blockSetsFlag(b *ssa.BasicBlock) bool {
	flag := c.lineBreakFlag()
	for _, in := range b.Instrs {
		st, ok := in.(*ssa.Store)
		if !ok || !isScannerField(st.Addr, "tokenFlags") {
			continue
		}
		if bo, ok := st.Val.(*ssa.BinOp); ok && bo.Op == token.OR {
			if n, ok := constIntArg(bo.Y); ok && n&flag != 0 {
				return true
			}
			if n, ok := constIntArg(bo.X); ok && n&flag != 0 {
				return true
			}
		}
	}
	return false
}

func (c *Ctx) foldRuneFn(name string, r rune) (bool, bool) {
	f := c.fn(name)
	if f == nil {
		return false, false
	}
	return c.foldRunePred(f, r)
}

func c14FastPath(c *Ctx, rule string) {
	scan := c.scanFn()
	ch, _ := decodedRune(scan)
	if ch == nil {
		c.R.Undecided(rule, "ANCHOR-UNRESOLVED rune decode in Scan", c.P.Pos(scan.Pos()), "no utf8.DecodeRune in Scan")
		return
	}
	arms := runeSwitchArms(scan, ch)
	header := scan.Blocks[0].Succs[0]
	n := 0
	var rs []rune
	for r := range arms {
		rs = append(rs, r)
	}
	sort.Slice(rs, func(i, j int) bool { return rs[i] < rs[j] })
	for _, r := range rs {
		b := arms[r]
		// a skipping arm: advances and jumps back to the loop header without storing a token
		skips := len(b.Succs) == 1 && b.Succs[0] == header
		if !skips {
			continue
		}
		n++
		ws, ok1 := c.foldRuneFn("IsWhiteSpace", r)
		lb, ok2 := c.foldRuneFn("IsLineBreak", r)
		if !ok1 || !ok2 {
			c.R.Undecided(rule, fmt.Sprintf("rune:U+%04X", r), c.P.Pos(scan.Pos()), "class predicates do not fold")
			continue
		}
		if c.blockSetsFlag(b) {
			c.R.Check(rule, fmt.Sprintf("rune:U+%04X", r), c.P.Pos(scan.Pos()), lb, fmt.Sprintf("U+%04X is skipped as a line break (sets the preceding-line-break flag) but IsLineBreak is false for it", r))
		} else {
			c.R.Check(rule, fmt.Sprintf("rune:U+%04X", r), c.P.Pos(scan.Pos()), ws && !lb, fmt.Sprintf("U+%04X is skipped as plain white space (IsWhiteSpace=%v) but IsLineBreak=%v: a line break skipped without setting the flag lets `.`/`(` continue across lines", r, ws, lb))
		}
	}
	// every line break of the statement sets the flag; the others of the ASCII white-space set do not produce tokens
	for _, r := range specLineBreaks {
		cons := fmt.Sprintf("linebreak:U+%04X", r)
		lb, ok := c.foldRuneFn("IsLineBreak", r)
		if !ok || !lb {
			c.R.Check(rule, cons, c.P.Pos(scan.Pos()), false, fmt.Sprintf("IsLineBreak(U+%04X) must be true (line-break set of the statement)", r))
			continue
		}
		okFlag := false
		if b, isArm := arms[r]; isArm {
			okFlag = c.blockSetsFlag(b) && len(b.Succs) == 1 && b.Succs[0] == header
		} else {
			// default arm: the true edge of IsLineBreak(ch) must set the flag; and neither identifier start nor white space may win before
			is, ok1 := c.foldRuneFn("IsIdentifierStart", r)
			if !ok1 && r > 127 {
				// non-ASCII: membership in the (well-formed, see C14.range-tables) start table
				if tab, _ := c.sliceLiteralInts("unicodeES5IdentifierStart"); tab != nil {
					is, ok1 = false, true
					for i := 0; i+1 < len(tab); i += 2 {
						if tab[i] <= int64(r) && int64(r) <= tab[i+1] {
							is = true
						}
					}
				}
			}
			ws, ok2 := c.foldRuneFn("IsWhiteSpace", r)
			if ok1 && ok2 && !is && !ws {
				instrs(scan, func(b *ssa.BasicBlock, i int, in ssa.Instruction) {
					iff, ok := in.(*ssa.If)
					if !ok {
						return
					}
					call, ok := iff.Cond.(*ssa.Call)
					if !ok || calleeOf(call) != c.fn("IsLineBreak") || len(call.Call.Args) != 1 || call.Call.Args[0] != ch {
						return
					}
					t := b.Succs[0]
					if c.blockSetsFlag(t) && len(t.Succs) == 1 && t.Succs[0] == header {
						okFlag = true
					}
				})
			}
		}
		c.R.Check(rule, cons, c.P.Pos(scan.Pos()), okFlag, fmt.Sprintf("line break U+%04X must be skipped with the preceding-line-break flag set", r))
	}
	// the default arm's white-space test skips without a token
	okWS := false
	instrs(scan, func(b *ssa.BasicBlock, i int, in ssa.Instruction) {
		iff, ok := in.(*ssa.If)
		if !ok {
			return
		}
		call, ok := iff.Cond.(*ssa.Call)
		if !ok || calleeOf(call) != c.fn("IsWhiteSpace") || call.Call.Args[0] != ch {
			return
		}
		t := b.Succs[0]
		if !c.blockSetsFlag(t) && len(t.Succs) == 1 && t.Succs[0] == header {
			okWS = true
		}
	})
	c.R.Check(rule, "default-whitespace", c.P.Pos(scan.Pos()), okWS, "non-ASCII white space (IsWhiteSpace) must be skipped without producing a token")
	c.R.Floor(rule, 5)
}

func c14RangeTables(c *Ctx) {
	const rule = "C14.range-tables"
	for _, name := range []string{"unicodeES5IdentifierStart", "unicodeES5IdentifierPart"} {
		vals, pos := c.sliceLiteralInts(name)
		if vals == nil {
			c.R.Undecided(rule, "ANCHOR-UNRESOLVED "+name, "-", "range table literal not found")
			continue
		}
		bad := ""
		if len(vals)%2 != 0 {
			bad = fmt.Sprintf("odd length %d: the binary search reads pairs", len(vals))
		}
		for i := 0; i+1 < len(vals) && bad == ""; i += 2 {
			if vals[i] > vals[i+1] {
				bad = fmt.Sprintf("pair %d: lo %d > hi %d", i/2, vals[i], vals[i+1])
			}
			if i >= 2 && vals[i] <= vals[i-1] {
				bad = fmt.Sprintf("pair %d starts at %d, not after the previous pair's end %d: binary search needs strictly ascending, disjoint ranges", i/2, vals[i], vals[i-1])
			}
		}
		if bad == "" && len(vals) > 0 && vals[0] <= 127 {
			bad = "table starts inside ASCII; the ASCII classes are decided by the fast path"
		}
		c.R.Check(rule, name, pos, bad == "", bad)
		c.R.Analysed["range_pairs_"+name] = len(vals) / 2
	}
	// Start ⊆ Part on the tables (an identifier start is an identifier part)
	st, _ := c.sliceLiteralInts("unicodeES5IdentifierStart")
	pt, pos := c.sliceLiteralInts("unicodeES5IdentifierPart")
	if st != nil && pt != nil {
		inPart := func(v int64) bool {
			for i := 0; i+1 < len(pt); i += 2 {
				if pt[i] <= v && v <= pt[i+1] {
					return true
				}
			}
			return false
		}
		bad := ""
		for i := 0; i+1 < len(st) && bad == ""; i += 2 {
			for v := st[i]; v <= st[i+1]; v++ {
				if !inPart(v) {
					bad = fmt.Sprintf("U+%04X may start an identifier but not continue one", v)
					break
				}
			}
		}
		c.R.Check(rule, "start-subset-of-part", pos, bad == "", bad)
	}
	// ASCII classes by folding: letters, $ _ start; digits continue only
	for r := rune(0); r < 128; r++ {
		s, ok1 := c.foldRuneFn("IsIdentifierStart", r)
		p, ok2 := c.foldRuneFn("IsIdentifierPart", r)
		wantS := r >= 'a' && r <= 'z' || r >= 'A' && r <= 'Z' || r == '$' || r == '_'
		wantP := wantS || r >= '0' && r <= '9'
		if !ok1 || !ok2 {
			c.R.Undecided("C14.ascii-identifier-class", fmt.Sprintf("U+%04X", r), "scanner.go", "identifier class predicates do not fold for ASCII")
			continue
		}
		c.R.Check("C14.ascii-identifier-class", fmt.Sprintf("U+%04X", r), "scanner.go", s == wantS && p == wantP, fmt.Sprintf("ASCII %q: start=%v part=%v, expected start=%v part=%v ($, _, letters start; digits continue)", r, s, p, wantS, wantP))
	}
	c.R.Floor(rule, 3)
	c.R.Floor("C14.ascii-identifier-class", 128)
}

// sliceLiteralInts evaluates `var name = []T{...}` element constants from the syntax tree.
func (c *Ctx) sliceLiteralInts(name string) ([]int64, string) {
	name = c.P.alias(name)
	for _, file := range c.P.Root.Syntax {
		for _, d := range file.Decls {
			gd, ok := d.(*ast.GenDecl)
			if !ok || gd.Tok != token.VAR {
				continue
			}
			for _, sp := range gd.Specs {
				vs := sp.(*ast.ValueSpec)
				for i, n := range vs.Names {
					if n.Name != name || i >= len(vs.Values) {
						continue
					}
					cl, ok := vs.Values[i].(*ast.CompositeLit)
					if !ok {
						return nil, ""
					}
					var out []int64
					for _, e := range cl.Elts {
						tv, ok := c.P.Root.TypesInfo.Types[e]
						if !ok || tv.Value == nil {
							return nil, ""
						}
						v, ok := constant.Int64Val(constant.ToInt(tv.Value))
						if !ok {
							return nil, ""
						}
						out = append(out, v)
					}
					return out, c.P.Pos(cl.Pos())
				}
			}
		}
	}
	return nil, ""
}

func c14Flag(c *Ctx) {
	const rule = "C14.linebreak-flag"
	scan := c.scanFn()
	// reset at the top of Scan, before the loop
	reset := false
	for _, in := range scan.Blocks[0].Instrs {
		if st, ok := in.(*ssa.Store); ok && isScannerField(st.Addr, "tokenFlags") {
			if n, ok := constIntArg(st.Val); ok && n == 0 {
				reset = true
			}
		}
	}
	c.R.Check(rule, "reset-per-token", c.P.Pos(scan.Pos()), reset, "the token flags must be cleared at the start of every Scan, outside the trivia loop")
	h := c.method("Scanner", "HasPrecedingLineBreak")
	if c.need(rule, h, "(*Scanner).HasPrecedingLineBreak") {
		flag := c.lineBreakFlag()
		okRead := false
		instrs(h, func(b *ssa.BasicBlock, i int, in ssa.Instruction) {
			bo, ok := in.(*ssa.BinOp)
			if !ok || bo.Op != token.AND {
				return
			}
			u, ok := bo.X.(*ssa.UnOp)
			if !ok || !isScannerField(u.X, "tokenFlags") {
				return
			}
			if n, ok := constIntArg(bo.Y); ok && n == flag {
				// compared with zero
				for _, ref := range *bo.Referrers() {
					if cmp, ok := ref.(*ssa.BinOp); ok && cmp.Op == token.NEQ {
						if z, ok := constIntArg(cmp.Y); ok && z == 0 {
							okRead = true
						}
					}
				}
			}
		})
		c.R.Check(rule, "flag-read", c.P.Pos(h.Pos()), okRead, "HasPrecedingLineBreak must test exactly the preceding-line-break bit that Scan sets")
	}
	// no other function clears or sets tokenFlags' line-break bit between Scan and the parser's test:
	// writers of tokenFlags are Scan, its sub-scanners (OR of other bits) and the speculation restore.
	for _, f := range c.P.ModFuncs {
		instrs(f, func(b *ssa.BasicBlock, i int, in ssa.Instruction) {
			st, ok := in.(*ssa.Store)
			if !ok || !isScannerField(st.Addr, "tokenFlags") {
				return
			}
			cons := "writer:" + c.P.FuncKey(f)
			if bo, ok := st.Val.(*ssa.BinOp); ok && bo.Op == token.OR {
				c.R.Add(rule, cons, c.P.InstrPos(in), OK, "")
				return
			}
			if n, ok := constIntArg(st.Val); ok && n == 0 && (f == scan || f.Name() == "SetTextPos") {
				c.R.Add(rule, cons, c.P.InstrPos(in), OK, "")
				return
			}
			// restoring a saved copy (speculation helper)
			saved := false
			for _, rt := range plainOrigins.Roots(st.Val) {
				if len(rt.Path) > 0 && rt.Path[len(rt.Path)-1] == "tokenFlags" || rt.Kind == "param" {
					saved = true
				}
			}
			if u, ok := st.Val.(*ssa.UnOp); ok && isScannerField(u.X, "tokenFlags") {
				saved = true
			}
			c.R.Check(rule, cons, c.P.InstrPos(in), saved, "unexpected overwrite of the token flags (only OR-ing a bit, the per-token reset and the speculation restore are known)")
		})
	}
	c.R.Floor(rule, 3)
}

// keywordBuilderRange recognises a keyword map built by ranging over a sub-slice of the token table:
//
//	m := make(map[string]SyntaxKind); for i, text := range tokens[lo:hi] { m[text] = lo + SyntaxKind(i) }
//
// with m stored into (or returned into) the package-level keyword map. Returns the kind range [lo, hi-1].
func (c *Ctx) keywordBuilderRange(kwG *ssa.Global) (lo, hi int64, pos string, ok bool) {
	if kwG == nil {
		return
	}
	// functions whose result is stored into the keyword global by an initialiser
	builders := map[*ssa.Function]bool{}
	for _, f := range c.P.ModFuncs {
		if !isInitFn(f) {
			continue
		}
		instrs(f, func(b *ssa.BasicBlock, i int, in ssa.Instruction) {
			st, isSt := in.(*ssa.Store)
			if !isSt || st.Addr != ssa.Value(kwG) {
				return
			}
			if call, isC := st.Val.(*ssa.Call); isC {
				if g := calleeOf(call); g != nil && c.inModule(g) {
					builders[g] = true
				}
			}
		})
	}
	for g := range builders {
		instrs(g, func(b *ssa.BasicBlock, i int, in ssa.Instruction) {
			mu, isMu := in.(*ssa.MapUpdate)
			if !isMu || ok {
				return
			}
			mk, isMk := mu.Map.(*ssa.MakeMap)
			if !isMk {
				return
			}
			// the made map is what the builder returns
			returned := false
			for _, ref := range *mk.Referrers() {
				if ret, isR := ref.(*ssa.Return); isR && len(ret.Results) == 1 && ret.Results[0] == ssa.Value(mk) {
					returned = true
				}
			}
			if !returned {
				return
			}
			l, h, okR := c.rangeSliceUpdate(mu)
			if !okR {
				return
			}
			lo, hi, pos, ok = l, h-1, c.P.InstrPos(in), true
		})
	}
	return
}

// rangeSliceUpdate: the map update `m[text] = lo + i` inside `for i, text := range tokens[lo:hi]`; returns lo, hi.
func (c *Ctx) rangeSliceUpdate(mu *ssa.MapUpdate) (int64, int64, bool) {
	// key = S[I], S = tokens[lo:hi]
	ku, isU := mu.Key.(*ssa.UnOp)
	if !isU {
		return 0, 0, false
	}
	ia, isIA := ku.X.(*ssa.IndexAddr)
	if !isIA {
		return 0, 0, false
	}
	sl, isSl := ia.X.(*ssa.Slice)
	if !isSl || sl.Low == nil || sl.High == nil {
		return 0, 0, false
	}
	if gl, isG := sl.X.(*ssa.Global); !isG || gl.Name() != c.P.alias("tokens") {
		return 0, 0, false
	}
	l, okL := constIntArg(sl.Low)
	h, okH := constIntArg(sl.High)
	if !okL || !okH {
		return 0, 0, false
	}
	// value = lo + I
	bo, isB := mu.Value.(*ssa.BinOp)
	if !isB || bo.Op != token.ADD {
		return 0, 0, false
	}
	strip := func(v ssa.Value) ssa.Value {
		for {
			if cv, isCv := v.(*ssa.Convert); isCv {
				v = cv.X
				continue
			}
			if ct, isCt := v.(*ssa.ChangeType); isCt {
				v = ct.X
				continue
			}
			return v
		}
	}
	var base int64
	var idx ssa.Value
	if k, isK := constIntArg(bo.X); isK {
		base, idx = k, strip(bo.Y)
	} else if k, isK := constIntArg(bo.Y); isK {
		base, idx = k, strip(bo.X)
	} else {
		return 0, 0, false
	}
	if idx != ia.Index || base != l {
		return 0, 0, false
	}
	// I is the range index: phi(-1, I) + 1, compared with len(S)
	inc, isInc := idx.(*ssa.BinOp)
	if !isInc || inc.Op != token.ADD {
		return 0, 0, false
	}
	phi, isPhi := inc.X.(*ssa.Phi)
	one, isOne := constIntArg(inc.Y)
	if !isPhi || !isOne || one != 1 {
		return 0, 0, false
	}
	start := false
	for _, e := range phi.Edges {
		if k, isK := constIntArg(e); isK && k == -1 {
			start = true
		} else if e != idx {
			return 0, 0, false
		}
	}
	bounded := false
	for _, ref := range *inc.Referrers() {
		if cmp, isCmp := ref.(*ssa.BinOp); isCmp && cmp.Op == token.LSS && cmp.X == idx {
			if call, isC := cmp.Y.(*ssa.Call); isC && isBuiltinCall(call, "len") && call.Call.Args[0] == ssa.Value(sl) {
				bounded = true
			}
		}
	}
	if !start || !bounded {
		return 0, 0, false
	}
	return l, h, true
}

// isTokStoreFree: always true; kept as the hook where a stricter condition on the caller's side of a tail call
// (e.g. "the caller stored nothing contradictory") would go.
func isTokStoreFree(f *ssa.Function, at ssa.Instruction) bool { return true }
