package main

import (
	"fmt"
	"go/constant"
	"go/token"
	"go/types"
	"os"
	"sort"
	"strings"

	"golang.org/x/tools/go/ssa"
)

// Sparse conditional constant propagation over go/ssa, run with some values
// pinned to constants ("what does this function do when the current token is
// k?"). It is the constant folder a compiler runs, applied once per enum
// value: it executes no code of the repository and models no heap. Values it
// cannot fold are Bottom; branches on Bottom keep both edges.

type lkind int

const (
	lTop lkind = iota // not yet known (unreached)
	lConst
	lBottom // not a constant
	lRef    // a known SSA value identity (a function value, a locally built table)
)

type LV struct {
	K lkind
	C constant.Value
	V ssa.Value
}

func (a LV) String() string {
	switch a.K {
	case lTop:
		return "T"
	case lConst:
		return a.C.ExactString()
	case lRef:
		return fmt.Sprintf("ref(%p)", a.V)
	}
	return "_"
}

func refLV(v ssa.Value) LV { return LV{K: lRef, V: v} }

var bottom = LV{K: lBottom}

func constLV(c constant.Value) LV { return LV{K: lConst, C: c} }

func meet(a, b LV) LV {
	if a.K == lTop {
		return b
	}
	if b.K == lTop {
		return a
	}
	if a.K == lBottom || b.K == lBottom {
		return bottom
	}
	if a.K == lRef || b.K == lRef {
		if a.K == lRef && b.K == lRef && a.V == b.V {
			return a
		}
		return bottom
	}
	if sameConst(a.C, b.C) {
		return a
	}
	return bottom
}

type Folder struct {
	P *Prog
	// Input pins a value to a constant (e.g. the result of the token accessor).
	// Returning (nil,false) leaves the value to normal evaluation.
	Input func(v ssa.Value) (constant.Value, bool)
	// Opaque marks callees that must not be folded through.
	Opaque func(f *ssa.Function) bool
	// EnterCall, when set, may veto folding through one particular call site.
	EnterCall func(call *ssa.Call) bool
	// CallHook, when set, may give the value of a call from the folded values of its arguments
	// (modelled primitives called with arguments that are constants only in this fold).
	CallHook func(call *ssa.Call, args []LV) (LV, bool)
	MaxDepth int
	memo     map[string]*FoldResult
}

type FoldResult struct {
	Fn      *ssa.Function
	Reach   map[*ssa.BasicBlock]bool
	Edge    map[[2]int]bool
	Vals    map[ssa.Value]LV
	Returns []*ssa.Return // reachable returns
	Panics  []*ssa.Panic
}

// Val is the folded value of v (Bottom when unknown).
func (r *FoldResult) Val(v ssa.Value) LV {
	if c, ok := v.(*ssa.Const); ok {
		return constOf(c)
	}
	if lv, ok := r.Vals[v]; ok {
		return lv
	}
	return bottom
}

// ReachableCalls lists call instructions in reachable blocks, in block order.
func (r *FoldResult) ReachableCalls() []ssa.CallInstruction {
	var out []ssa.CallInstruction
	for _, b := range r.Fn.Blocks {
		if !r.Reach[b] {
			continue
		}
		for _, in := range b.Instrs {
			if c, ok := in.(ssa.CallInstruction); ok {
				out = append(out, c)
			}
		}
	}
	return out
}

// ReturnConst: if every reachable return yields the same constant for result i.
func (r *FoldResult) ReturnConst(i int) (constant.Value, bool) {
	acc := LV{K: lTop}
	for _, ret := range r.Returns {
		if i >= len(ret.Results) {
			return nil, false
		}
		acc = meet(acc, r.Val(ret.Results[i]))
	}
	if acc.K == lConst {
		return acc.C, true
	}
	return nil, false
}

func constOf(c *ssa.Const) LV {
	if c.Value == nil {
		// nil / zero value
		if b, ok := c.Type().Underlying().(*types.Basic); ok {
			switch {
			case b.Info()&types.IsBoolean != 0:
				return constLV(constant.MakeBool(false))
			case b.Info()&types.IsInteger != 0:
				return constLV(constant.MakeInt64(0))
			case b.Info()&types.IsString != 0:
				return constLV(constant.MakeString(""))
			}
		}
		return constLV(constant.MakeUnknown()) // "nil": a known constant we never compute with
	}
	return constLV(c.Value)
}

func (fo *Folder) Fold(f *ssa.Function, args []LV) *FoldResult {
	return fo.fold(f, args, 0)
}

func (fo *Folder) fold(f *ssa.Function, args []LV, depth int) *FoldResult {
	if fo.memo == nil {
		fo.memo = map[string]*FoldResult{}
	}
	var kb strings.Builder
	fmt.Fprintf(&kb, "%p|", f)
	for _, a := range args {
		kb.WriteString(a.String())
		kb.WriteByte(',')
	}
	key := kb.String()
	if r, ok := fo.memo[key]; ok {
		return r
	}
	res := &FoldResult{Fn: f, Reach: map[*ssa.BasicBlock]bool{}, Edge: map[[2]int]bool{}, Vals: map[ssa.Value]LV{}}
	fo.memo[key] = res // recursion guard: recursive calls see an empty (Top) result
	if len(f.Blocks) == 0 {
		return res
	}
	for i, p := range f.Params {
		if i < len(args) {
			res.Vals[p] = args[i]
		} else {
			res.Vals[p] = bottom
		}
	}
	for _, fv := range f.FreeVars {
		res.Vals[fv] = bottom
	}
	res.Reach[f.Blocks[0]] = true
	set := func(v ssa.Value, lv LV) bool {
		old, ok := res.Vals[v]
		if !ok {
			old = LV{K: lTop}
		}
		nv := meet(old, lv)
		if lv.K == lTop {
			nv = old
		}
		if !ok || nv.K != old.K || (nv.K == lConst && !sameConst(nv.C, old.C)) || (nv.K == lRef && nv.V != old.V) {
			res.Vals[v] = nv
			return true
		}
		return false
	}
	for iter := 0; iter < 10000; iter++ {
		changed := false
		for _, b := range f.Blocks {
			if !res.Reach[b] {
				continue
			}
			for _, in := range b.Instrs {
				switch x := in.(type) {
				case *ssa.Phi:
					acc := LV{K: lTop}
					for i, pred := range b.Preds {
						if !res.Edge[[2]int{pred.Index, b.Index}] {
							continue
						}
						acc = meet(acc, fo.operand(res, x.Edges[i]))
					}
					if c, ok := fo.pin(x); ok {
						acc = constLV(c)
					}
					if set(x, acc) {
						changed = true
					}
				case *ssa.If:
					c := fo.operand(res, x.Cond)
					mark := func(k int) {
						s := b.Succs[k]
						e := [2]int{b.Index, s.Index}
						if !res.Edge[e] {
							res.Edge[e] = true
							changed = true
						}
						if !res.Reach[s] {
							res.Reach[s] = true
							changed = true
						}
					}
					switch c.K {
					case lConst:
						if c.C.Kind() == constant.Bool {
							if constant.BoolVal(c.C) {
								mark(0)
							} else {
								mark(1)
							}
						} else {
							mark(0)
							mark(1)
						}
					case lBottom:
						mark(0)
						mark(1)
					}
				case *ssa.Jump:
					s := b.Succs[0]
					e := [2]int{b.Index, s.Index}
					if !res.Edge[e] {
						res.Edge[e] = true
						changed = true
					}
					if !res.Reach[s] {
						res.Reach[s] = true
						changed = true
					}
				default:
					if v, ok := in.(ssa.Value); ok {
						lv := fo.eval(res, v, depth)
						if set(v, lv) {
							changed = true
						}
					}
				}
			}
		}
		if !changed {
			break
		}
	}
	for _, b := range f.Blocks {
		if !res.Reach[b] || len(b.Instrs) == 0 {
			continue
		}
		switch t := b.Instrs[len(b.Instrs)-1].(type) {
		case *ssa.Return:
			res.Returns = append(res.Returns, t)
		case *ssa.Panic:
			res.Panics = append(res.Panics, t)
		}
	}
	sort.Slice(res.Returns, func(i, j int) bool { return res.Returns[i].Block().Index < res.Returns[j].Block().Index })
	return res
}

func sameConst(a, b constant.Value) bool {
	if a.Kind() != b.Kind() {
		return false
	}
	if a.Kind() == constant.Unknown {
		return true
	}
	return constant.Compare(a, token.EQL, b)
}

func (fo *Folder) pin(v ssa.Value) (constant.Value, bool) {
	if fo.Input == nil {
		return nil, false
	}
	return fo.Input(v)
}

func (fo *Folder) operand(res *FoldResult, v ssa.Value) LV {
	if c, ok := v.(*ssa.Const); ok {
		return constOf(c)
	}
	if lv, ok := res.Vals[v]; ok {
		return lv
	}
	switch x := v.(type) {
	case *ssa.Function:
		return refLV(x)
	case *ssa.Global, *ssa.Builtin:
		return bottom
	}
	return LV{K: lTop}
}

// constTable: the contents of a map that is built from constant keys and never modified otherwise:
// a local `make(map)` followed by constant stores, or a package-level map filled only by the
// package initialiser. Returns nil when the map is not of that simple kind.
func (fo *Folder) constTable(res *FoldResult, m ssa.Value) (map[string]LV, bool) {
	key := func(lv LV) (string, bool) {
		if lv.K != lConst {
			return "", false
		}
		return lv.C.Kind().String() + ":" + lv.C.ExactString(), true
	}
	out := map[string]LV{}
	collect := func(mk ssa.Value, r *FoldResult, localFold bool) bool {
		refs := mk.Referrers()
		if refs == nil {
			return false
		}
		for _, ref := range *refs {
			switch x := ref.(type) {
			case *ssa.MapUpdate:
				if x.Map != mk {
					return false
				}
				var kl, vl LV
				if kc, ok := x.Key.(*ssa.Const); ok {
					kl = constOf(kc)
				} else if localFold {
					kl = fo.operand(r, x.Key)
				}
				val := x.Value
				for {
					// a function stored under a named function type (`map[K]handlerFunc{k: (*T).m}`)
					if ct, isCT := val.(*ssa.ChangeType); isCT {
						if _, isSig := ct.X.Type().Underlying().(*types.Signature); isSig {
							val = ct.X
							continue
						}
					}
					break
				}
				switch vv := val.(type) {
				case *ssa.Const:
					vl = constOf(vv)
				case *ssa.Function:
					vl = refLV(vv)
				case *ssa.MakeClosure:
					vl = refLV(vv)
				default:
					if localFold {
						vl = fo.operand(r, x.Value)
					}
				}
				ks, ok := key(kl)
				if !ok || (vl.K != lConst && vl.K != lRef) {
					return false
				}
				out[ks] = vl
			case *ssa.Lookup, *ssa.DebugRef:
			case *ssa.Store:
				// storing the finished map into its package-level variable
				if _, isG := x.Addr.(*ssa.Global); !isG || x.Val != mk {
					return false
				}
			case *ssa.Call:
				if !isBuiltinCall(x, "len") {
					return false
				}
			default:
				return false
			}
		}
		return true
	}
	switch x := m.(type) {
	case *ssa.MakeMap:
		if !collect(x, res, true) {
			return nil, false
		}
		return out, true
	case *ssa.UnOp:
		g, ok := x.X.(*ssa.Global)
		if !ok || g.Pkg != fo.P.Pkg {
			return nil, false
		}
		// every store to the global is in an init function and stores a simple map
		n := 0
		for _, f := range fo.P.ModFuncs {
			bad := false
			instrs(f, func(b *ssa.BasicBlock, i int, in ssa.Instruction) {
				st, isSt := in.(*ssa.Store)
				if !isSt || st.Addr != ssa.Value(g) {
					return
				}
				if !isInitFn(f) {
					bad = true
					return
				}
				mk, isMk := st.Val.(*ssa.MakeMap)
				if !isMk || !collect(mk, nil, false) {
					bad = true
					return
				}
				n++
			})
			if bad {
				return nil, false
			}
		}
		// no map update through the global elsewhere
		for _, f := range fo.P.ModFuncs {
			bad := false
			instrs(f, func(b *ssa.BasicBlock, i int, in ssa.Instruction) {
				if mu, isMu := in.(*ssa.MapUpdate); isMu {
					if u, isU := mu.Map.(*ssa.UnOp); isU && u.X == ssa.Value(g) {
						bad = true
					}
				}
			})
			if bad {
				return nil, false
			}
		}
		return out, n == 1
	}
	return nil, false
}

var globalArrayMemo = map[*ssa.Global]map[int64]LV{}
var globalArrayBad = map[*ssa.Global]bool{}

// globalArray: the constant contents of a package-level array variable: its only write is the package initialiser
// storing a literal (`var t = [N]T{k: v}`), every other use reads an element or copies the whole array.
func (fo *Folder) globalArray(g *ssa.Global) (map[int64]LV, bool) {
	if t, ok := globalArrayMemo[g]; ok {
		return t, true
	}
	if globalArrayBad[g] || g.Pkg != fo.P.Pkg {
		return nil, false
	}
	fail := func() (map[int64]LV, bool) {
		globalArrayBad[g] = true
		if os.Getenv("FOLD_DEBUG") != "" {
			fmt.Println("globalArray fails for", g.Name())
		}
		return nil, false
	}
	if _, isArr := deref(g.Type()).Underlying().(*types.Array); !isArr {
		return fail()
	}
	out := map[int64]LV{}
	stores := 0
	ok := true
	inPlace := false
	for _, f := range fo.P.ModFuncs {
		instrs(f, func(b *ssa.BasicBlock, i int, in ssa.Instruction) {
			uses := false
			for _, op := range in.Operands(nil) {
				if op != nil && *op == ssa.Value(g) {
					uses = true
				}
			}
			if !uses || !ok {
				return
			}
			switch x := in.(type) {
			case *ssa.IndexAddr:
				for _, ref := range *x.Referrers() {
					switch r := ref.(type) {
					case *ssa.UnOp:
						if r.Op != token.MUL {
							ok = false
						}
					case *ssa.DebugRef:
					case *ssa.Store:
						// the literal's elements stored in place by the package initialiser
						k, isK := constIntArg(x.Index)
						if !isK || r.Addr != ssa.Value(x) || !isInitFn(f) || f.Name() != "init" {
							ok = false
							continue
						}
						if _, dup := out[k]; dup {
							ok = false
							continue
						}
						inPlace = true
						switch vv := r.Val.(type) {
						case *ssa.Const:
							out[k] = constOf(vv)
						case *ssa.Function:
							out[k] = refLV(vv)
						default:
							ok = false
						}
					default:
						ok = false
					}
				}
			case *ssa.UnOp:
				if x.Op != token.MUL {
					ok = false
				}
			case *ssa.DebugRef:
			case *ssa.Store:
				if x.Addr != ssa.Value(g) || !isInitFn(f) {
					ok = false
					return
				}
				stores++
				ld, isLd := x.Val.(*ssa.UnOp)
				if !isLd || ld.Op != token.MUL {
					ok = false
					return
				}
				al, isAl := ld.X.(*ssa.Alloc)
				if !isAl {
					ok = false
					return
				}
				for _, ref := range *al.Referrers() {
					switch r := ref.(type) {
					case *ssa.IndexAddr:
						k, isK := constIntArg(r.Index)
						if !isK {
							ok = false
							continue
						}
						for _, r2 := range *r.Referrers() {
							st, isSt := r2.(*ssa.Store)
							if !isSt || st.Addr != ssa.Value(r) {
								ok = false
								continue
							}
							switch vv := st.Val.(type) {
							case *ssa.Const:
								out[k] = constOf(vv)
							case *ssa.Function:
								out[k] = refLV(vv)
							default:
								ok = false
							}
						}
					case *ssa.UnOp:
						if r != ld {
							ok = false
						}
					case *ssa.DebugRef:
					default:
						ok = false
					}
				}
			default:
				ok = false
			}
			if !ok && os.Getenv("FOLD_DEBUG") != "" {
				fmt.Println("globalArray: use", in, "in", f.Name())
			}
		})
	}
	if !ok || !(stores == 1 && !inPlace || stores == 0 && inPlace) {
		return fail()
	}
	globalArrayMemo[g] = out
	return out, true
}

func zeroLV(t types.Type) LV {
	if b, ok := t.Underlying().(*types.Basic); ok {
		switch {
		case b.Info()&types.IsBoolean != 0:
			return constLV(constant.MakeBool(false))
		case b.Info()&types.IsInteger != 0:
			return constLV(constant.MakeInt64(0))
		case b.Info()&types.IsString != 0:
			return constLV(constant.MakeString(""))
		}
		return bottom
	}
	return constLV(constant.MakeUnknown())
}

func (fo *Folder) eval(res *FoldResult, v ssa.Value, depth int) LV {
	if c, ok := fo.pin(v); ok {
		return constLV(c)
	}
	switch x := v.(type) {
	case *ssa.MakeClosure:
		return refLV(x)
	case *ssa.Lookup:
		if x.CommaOk {
			return bottom // handled at the Extract
		}
		if tab, ok := fo.constTable(res, x.X); ok {
			kl := fo.operand(res, x.Index)
			if kl.K == lTop {
				return kl
			}
			if kl.K == lConst {
				if v, hit := tab[kl.C.Kind().String()+":"+kl.C.ExactString()]; hit {
					return v
				}
				return zeroLV(x.Type())
			}
		}
		return bottom
	case *ssa.Extract:
		if lk, ok := x.Tuple.(*ssa.Lookup); ok && lk.CommaOk {
			if tab, ok := fo.constTable(res, lk.X); ok {
				kl := fo.operand(res, lk.Index)
				if kl.K == lTop {
					return kl
				}
				if kl.K == lConst {
					v, hit := tab[kl.C.Kind().String()+":"+kl.C.ExactString()]
					if x.Index == 1 {
						return constLV(constant.MakeBool(hit))
					}
					if hit {
						return v
					}
					return zeroLV(x.Type())
				}
			}
		}
		return bottom
	case *ssa.BinOp:
		a, b := fo.operand(res, x.X), fo.operand(res, x.Y)
		if a.K == lTop || b.K == lTop {
			return LV{K: lTop}
		}
		if a.K == lBottom || b.K == lBottom {
			return bottom
		}
		if a.K == lRef || b.K == lRef {
			// a known non-nil reference compared with nil
			if (x.Op == token.EQL || x.Op == token.NEQ) && (a.K == lConst && a.C.Kind() == constant.Unknown || b.K == lConst && b.C.Kind() == constant.Unknown) {
				return constLV(constant.MakeBool(x.Op == token.NEQ))
			}
			return bottom
		}
		return binop(x.Op, a.C, b.C, x.X.Type())
	case *ssa.UnOp:
		if x.Op == token.MUL {
			// an element of a package-level array that is written once, as a literal, by the package initialiser
			if ia, ok := x.X.(*ssa.IndexAddr); ok {
				if g, ok := ia.X.(*ssa.Global); ok {
					if tab, ok := fo.globalArray(g); ok {
						kl := fo.operand(res, ia.Index)
						if kl.K == lTop {
							return kl
						}
						if kl.K == lConst && kl.C.Kind() == constant.Int {
							if n, exact := constant.Int64Val(kl.C); exact {
								if v, hit := tab[n]; hit {
									return v
								}
								return zeroLV(x.Type())
							}
						}
					}
				}
			}
		}
		a := fo.operand(res, x.X)
		if x.Op == token.MUL || x.Op == token.ARROW {
			return bottom
		}
		if a.K == lRef {
			return bottom
		}
		if a.K != lConst {
			return a
		}
		switch x.Op {
		case token.NOT:
			if a.C.Kind() == constant.Bool {
				return constLV(constant.MakeBool(!constant.BoolVal(a.C)))
			}
		case token.SUB:
			if a.C.Kind() == constant.Int {
				return constLV(constant.UnaryOp(token.SUB, a.C, 0))
			}
		case token.XOR:
			if a.C.Kind() == constant.Int {
				return constLV(constant.UnaryOp(token.XOR, a.C, 0))
			}
		}
		return bottom
	case *ssa.ChangeType:
		return fo.operand(res, x.X)
	case *ssa.Convert:
		a := fo.operand(res, x.X)
		if a.K == lRef {
			return bottom
		}
		if a.K != lConst {
			return a
		}
		from, _ := x.X.Type().Underlying().(*types.Basic)
		to, _ := x.Type().Underlying().(*types.Basic)
		if from == nil || to == nil {
			return bottom
		}
		if from.Info()&types.IsInteger != 0 && to.Info()&types.IsInteger != 0 {
			return a
		}
		if from.Info()&types.IsInteger != 0 && to.Info()&types.IsString != 0 && a.C.Kind() == constant.Int {
			if n, ok := constant.Int64Val(a.C); ok {
				return constLV(constant.MakeString(string(rune(n))))
			}
		}
		if from.Info()&types.IsString != 0 && to.Info()&types.IsString != 0 {
			return a
		}
		return bottom
	case *ssa.Call:
		cal := calleeOf(x)
		if cal == nil && !x.Call.IsInvoke() {
			// a call through a function value whose identity folded (table-driven dispatch)
			if lv := fo.operand(res, x.Call.Value); lv.K == lRef {
				cal = fnValue(lv.V)
			}
		}
		if cal == nil || len(cal.Blocks) == 0 || !fo.P.InModule(cal) {
			return bottom
		}
		if fo.CallHook != nil {
			var hargs []LV
			for _, a := range x.Call.Args {
				hargs = append(hargs, fo.operand(res, a))
			}
			if lv, ok := fo.CallHook(x, hargs); ok {
				return lv
			}
		}
		if fo.Opaque != nil && fo.Opaque(cal) {
			return bottom
		}
		if depth >= fo.MaxDepth {
			return bottom
		}
		if fo.EnterCall != nil && !fo.EnterCall(x) {
			return bottom
		}
		sig := cal.Signature
		if sig.Results().Len() != 1 {
			return bottom
		}
		_, basicRes := sig.Results().At(0).Type().Underlying().(*types.Basic)
		if !basicRes && !isPointerLike(sig.Results().At(0).Type()) {
			return bottom
		}
		var args []LV
		for _, a := range x.Call.Args {
			lv := fo.operand(res, a)
			if lv.K == lTop {
				return LV{K: lTop}
			}
			args = append(args, lv)
		}
		if len(args) == len(cal.Params)-1 && cal.Signature.Recv() != nil {
			args = append([]LV{bottom}, args...) // a bound method value: the receiver is in the closure
		}
		sub := fo.fold(cal, args, depth+1)
		if os.Getenv("FOLD_DEBUG") != "" {
			fmt.Println("fold call", cal.Name(), args, len(sub.Returns))
		}
		if len(sub.Returns) == 0 {
			return bottom
		}
		if c, ok := sub.ReturnConst(0); ok {
			if !basicRes && c.Kind() != constant.Unknown {
				return bottom
			}
			return constLV(c)
		}
		return bottom
	}
	return bottom
}

func binop(op token.Token, a, b constant.Value, t types.Type) (out LV) {
	defer func() {
		if recover() != nil {
			out = bottom
		}
	}()
	if a.Kind() == constant.Unknown || b.Kind() == constant.Unknown {
		// nil constants: only (in)equality between two nils is known
		if a.Kind() == b.Kind() {
			switch op {
			case token.EQL:
				return constLV(constant.MakeBool(true))
			case token.NEQ:
				return constLV(constant.MakeBool(false))
			}
		}
		return bottom
	}
	switch op {
	case token.EQL, token.NEQ, token.LSS, token.LEQ, token.GTR, token.GEQ:
		if a.Kind() != b.Kind() {
			return bottom
		}
		return constLV(constant.MakeBool(constant.Compare(a, op, b)))
	case token.ADD, token.SUB, token.MUL, token.AND, token.OR, token.XOR, token.AND_NOT:
		if a.Kind() == constant.Int && b.Kind() == constant.Int {
			return constLV(constant.BinaryOp(a, op, b))
		}
		if op == token.ADD && a.Kind() == constant.String && b.Kind() == constant.String {
			return constLV(constant.BinaryOp(a, op, b))
		}
	case token.QUO, token.REM:
		if a.Kind() == constant.Int && b.Kind() == constant.Int && constant.Sign(b) != 0 {
			if op == token.QUO {
				return constLV(constant.BinaryOp(a, token.QUO_ASSIGN, b))
			}
			return constLV(constant.BinaryOp(a, token.REM, b))
		}
	case token.SHL, token.SHR:
		if a.Kind() == constant.Int && b.Kind() == constant.Int {
			if n, ok := constant.Uint64Val(b); ok && n < 64 {
				return constLV(constant.Shift(a, op, uint(n)))
			}
		}
	}
	return bottom
}
