package main

import (
	"fmt"
	"go/constant"
	"go/token"
	"go/types"
	"sort"
	"strings"

	"golang.org/x/tools/go/ssa"
)

func init() {
	register("C05",
		"each relational operator applies the right predicate to the three-way decimal comparison (truth vector over Cmp's {-1,0,+1}), with operands in source order and by numeric value (Cmp, not a total-order or text comparison); strings use Go's byte-wise operator of the same name; both equalities are Cmp==0 / Go == per kind; `!=` and `!==` are the boolean negations of the very functions `==` and `===` return; `===` compares only behind an identical-dynamic-type gate, with null===null true and false as fall-through. On the string arm every return is that Go == (no numeric coercion of numeric-looking strings). Two null-like operands are loosely equal; a guard in front of the comparison refuses the same operands for an operator and its negation, and only two values of one uncomparable dynamic type; numbers enter and are handed on exactly.",
		"trichotomy and representation-independence as value laws of (*Big).Cmp itself, NaN cases, and the coercions of mixed-kind `==`.",
		runC05)
}

type relSpec struct {
	tok    string
	vec    [3]bool // results for Cmp = -1, 0, +1
	strOp  token.Token
	symbol string
}

var relSpecs = []relSpec{
	{"SK_LessThan", [3]bool{true, false, false}, token.LSS, "<"},
	{"SK_GreaterThan", [3]bool{false, false, true}, token.GTR, ">"},
	{"SK_LessThanEquals", [3]bool{true, true, false}, token.LEQ, "<="},
	{"SK_GreaterThanEquals", [3]bool{false, true, true}, token.GEQ, ">="},
}

// operandParams: the two interface-typed value parameters of an operator handler, in order.
func operandParams(f *ssa.Function) []*ssa.Parameter {
	var out []*ssa.Parameter
	for _, p := range f.Params {
		if p.Type().String() == "interface{}" || p.Type().String() == "any" {
			out = append(out, p)
		}
	}
	return out
}

// coercedFrom: v is (a conversion helper applied to) parameter p: convToNumber(p), convToString(p), p.(T).
func (c *Ctx) coercedFrom(v ssa.Value, p *ssa.Parameter) bool {
	rs := plainOrigins.Roots(v)
	if len(rs) == 0 {
		return false
	}
	for _, r := range rs {
		switch r.Kind {
		case "param":
			if r.V != ssa.Value(p) || len(r.Path) != 0 {
				return false
			}
		case "call":
			call := r.V.(*ssa.Call)
			if r.Fn == nil || !c.inModule(r.Fn) || len(call.Call.Args) != 1 {
				return false
			}
			if !plainOrigins.exactlyParam(call.Call.Args[0], paramIndex(p)) {
				return false
			}
		default:
			return false
		}
	}
	return true
}

func runC05(c *Ctx) {
	arms, und := c.binaryDispatch()
	if und != "" {
		c.R.Undecided("C05.anchor", "binary-dispatch", "-", und)
		return
	}
	c05Relational(c, arms)
	c05Equality(c, arms)
	// "regardless of how a number is written": the number a literal or a data value denotes enters exactly (shared
	// with C04)
	c04NoFloat(c, arms, "C05.numbers-enter-exactly")
	// ... and stays exact on its way between the nodes: the value normaliser hands a number on unchanged, or as a
	// copy that keeps every digit (shared with C16)
	if d := c.EvalDispatcher(); d != nil {
		c16NormaliseAs(c, d, "C05.numbers-are-handed-on-exactly", false)
	}
	// "no matter how they are written": a number keeps its exact value through the sign operators (a negation done in a
	// 16-digit context makes distinct negative numbers equal) and a literal's text is the text as written
	if parms, und := c.prefixDispatch(); und == "" {
		c04Wiring(c, "C05.sign-operators-exact", arms, parms, true)
	}
	if ns := c.numberScanners(); ns.Frag != nil && ns.Num != nil {
		c12Stripped(c, ns, "C05.literal-text")
	}
}

func c05Relational(c *Ctx, arms map[int64]OpArm) {
	const rule = "C05.relational-predicate"
	for _, rs := range relSpecs {
		arm := arms[c.SK(rs.tok)]
		h := arm.Handler
		if h == nil {
			c.R.Check(rule, "handler:"+rs.symbol, arm.Pos, false, "no evaluator handler for "+rs.symbol)
			continue
		}
		pos := c.P.Pos(h.Pos())
		ops := operandParams(h)
		if len(ops) != 2 {
			c.R.Undecided(rule, "handler:"+rs.symbol, pos, "handler does not take two operand values")
			continue
		}
		// a handler that only hands (left, right) to a helper and returns its results is judged through the helper
		for d := 0; d < 2; d++ {
			g := c.delegateOf(c.foldWith(h, 0), ops)
			if g == nil {
				break
			}
			gops := operandParams(g)
			if len(gops) != 2 {
				break
			}
			h, ops = g, gops
		}
		// the dispatcher passes (left value, right value) in order: checked by C07.order; here: inside the handler
		if c.relationalViaKernel(rule, rs.symbol, rs.vec, h, ops) {
			continue
		}
		// numeric branch: vector over Cmp
		var got [3]bool
		okVec := true
		for i, cmp := range []int64{-1, 0, 1} {
			r := c.foldWith(h, 1, pinTypeCase(ops[0], "*decimal.Big"), pinCall("decimal.Big).Cmp", cInt(cmp), nil))
			b, ok := boxedBoolResult(r, 0)
			if !ok {
				okVec = false
			}
			got[i] = b
		}
		if !okVec {
			c.R.Undecided(rule, "numeric-vector:"+rs.symbol, pos, "the numeric branch does not fold to a boolean over Cmp's three results")
		} else {
			c.R.Check(rule, "numeric-vector:"+rs.symbol, pos, got == rs.vec, fmt.Sprintf("`a %s b` on numbers yields (%s,%s,%s) for Cmp(a,b) = (-1,0,+1); it must be (%s,%s,%s)", rs.symbol, tf(got[0]), tf(got[1]), tf(got[2]), tf(rs.vec[0]), tf(rs.vec[1]), tf(rs.vec[2])))
		}
		// the comparison is (*Big).Cmp with x from operand 1 and y from operand 2
		ncmp := 0
		instrs(h, func(b *ssa.BasicBlock, i int, in ssa.Instruction) {
			call, ok := in.(*ssa.Call)
			if !ok {
				return
			}
			cal := calleeOf(call)
			if cal == nil || !strings.Contains(cal.String(), "ericlagergren/decimal") {
				return
			}
			name := cal.Name()
			if strings.HasPrefix(name, "Cmp") {
				ncmp++
				okCallee := cal.String() == "(*github.com/ericlagergren/decimal.Big).Cmp"
				okOrder := len(call.Call.Args) == 2 && c.coercedFrom(call.Call.Args[0], ops[0]) && c.coercedFrom(call.Call.Args[1], ops[1])
				c.R.Check(rule, "numeric-compare:"+rs.symbol, c.P.InstrPos(in), okCallee && okOrder, fmt.Sprintf("numbers must be compared by value with (*Big).Cmp(left, right); found %s with operands in order=%v", cal.String(), okOrder))
			}
		})
		if ncmp == 0 {
			c.R.Check(rule, "numeric-compare:"+rs.symbol, pos, false, "the numeric branch does not call (*Big).Cmp")
		}
		// string branch: Go operator of the same name on (left, right)
		r := c.foldWith(h, 1, pinTypeCase(ops[0], "string"))
		okStr := false
		why := "no string comparison found on the string branch"
		for _, ret := range r.Returns {
			v := ret.Results[0]
			if mi, ok := v.(*ssa.MakeInterface); ok {
				v = mi.X
			}
			bo, ok := v.(*ssa.BinOp)
			if !ok {
				continue
			}
			if bo.Op == rs.strOp && c.coercedFrom(bo.X, ops[0]) && c.coercedFrom(bo.Y, ops[1]) {
				okStr = true
			} else {
				why = fmt.Sprintf("string branch computes `left %s right` with operands in order=%v", bo.Op, c.coercedFrom(bo.X, ops[0]) && c.coercedFrom(bo.Y, ops[1]))
			}
		}
		if !okStr {
			// strings.Compare(left, right) OP k: the same predicate over the three-way result as for numbers
			var cmpCall *ssa.Call
			for _, call := range r.ReachableCalls() {
				if cc, ok := call.(*ssa.Call); ok && calleeOf(cc) != nil && calleeOf(cc).String() == "strings.Compare" {
					cmpCall = cc
				}
			}
			if cmpCall != nil && len(cmpCall.Call.Args) == 2 && c.coercedFrom(cmpCall.Call.Args[0], ops[0]) && c.coercedFrom(cmpCall.Call.Args[1], ops[1]) {
				var got [3]bool
				all := true
				for i, k := range []int64{-1, 0, 1} {
					rr := c.foldWith(h, 1, pinTypeCase(ops[0], "string"), pinCall("strings.Compare", cInt(k), nil))
					b, ok := boxedBoolResult(rr, 0)
					if !ok {
						all = false
					}
					got[i] = b
				}
				if all && got == rs.vec {
					okStr = true
				} else {
					why = fmt.Sprintf("over strings.Compare = (-1,0,+1) the result is (%s,%s,%s)", tf(got[0]), tf(got[1]), tf(got[2]))
				}
			}
		}
		c.R.Check(rule, "string-operator:"+rs.symbol, pos, okStr, "strings must compare byte-wise with Go's `"+rs.symbol+"` on (left, right); "+why)
	}
	c.R.Floor(rule, 12)
}

func c05Equality(c *Ctx, arms map[int64]OpArm) { c05EqualityAs(c, arms, "") }

// c05EqualityAs: with looseNullRule set, only the "null-like operands are loosely equal" obligations are emitted, under
// that rule name (shared with C16: a typed nil pointer equals null).
func c05EqualityAs(c *Ctx, arms map[int64]OpArm, looseNullRule string) {
	eq, ne := arms[c.SK("SK_EqualsEquals")], arms[c.SK("SK_ExclamationEquals")]
	seq, sne := arms[c.SK("SK_EqualsEqualsEquals")], arms[c.SK("SK_ExclamationEqualsEquals")]
	// the function each handler returns, and whether it is negated
	type retFn struct {
		fn      *ssa.Function
		negated bool
		inOrder bool
		ok      bool
		guards  string // the module functions whose error is handed on in front of the comparison (sorted names)
		gfns    []*ssa.Function
	}
	analyse := func(h *ssa.Function) retFn {
		var out retFn
		if h == nil {
			return out
		}
		ops := operandParams(h)
		n := 0
		var guards []string
		instrs(h, func(b *ssa.BasicBlock, i int, in ssa.Instruction) {
			ret, isRet := in.(*ssa.Return)
			if !isRet {
				return
			}
			// `if err := check(op, v1, v2); err != nil { return nil, err }`: operands the comparison cannot take are
			// refused first - by the same function in the positive and in the negative handler (compared below)
			if len(ret.Results) == 2 && isNilConst(ret.Results[0]) {
				if rs := plainOrigins.Roots(ret.Results[1]); len(rs) == 1 && rs[0].Kind == "call" && rs[0].Fn != nil && c.inModule(rs[0].Fn) && len(rs[0].Path) == 0 {
					if t := b.Idom(); t != nil && len(t.Instrs) > 0 {
						if iff, isIf := t.Instrs[len(t.Instrs)-1].(*ssa.If); isIf && len(b.Preds) == 1 && t.Succs[0] == b {
							if bo, isB := iff.Cond.(*ssa.BinOp); isB && bo.Op == token.NEQ && (isNilConst(bo.Y) || isNilConst(bo.X)) {
								name := c.P.FuncKey(rs[0].Fn)
								if k := strings.Index(name, "__k"); k > 0 {
									name = name[:k] // a copy specialised for its constant arguments (constspec.go)
								}
								guards = append(guards, name)
								out.gfns = append(out.gfns, rs[0].Fn)
								return
							}
						}
					}
				}
				// the same refusal written out (the helper expanded): an error made on the spot; its format text
				// stands for it in the comparison of the two handlers
				if rs := plainOrigins.Roots(ret.Results[1]); len(rs) == 1 && rs[0].Kind == "call" && rs[0].Fn != nil && rs[0].Fn.String() == "fmt.Errorf" {
					if call, isCall := rs[0].V.(*ssa.Call); isCall && len(call.Call.Args) > 0 {
						if k, isK := call.Call.Args[0].(*ssa.Const); isK && k.Value != nil && k.Value.Kind() == constant.String {
							guards = append(guards, "error:"+constant.StringVal(k.Value))
							out.gfns = append(out.gfns, h) // judged where it stands: in the handler itself
							return
						}
					}
				}
			}
			n++
			v := ret.Results[0]
			if mi, ok := v.(*ssa.MakeInterface); ok {
				v = mi.X
			}
			neg := false
			if u, ok := v.(*ssa.UnOp); ok && u.Op == token.NOT {
				neg = true
				v = u.X
			}
			call, ok := v.(*ssa.Call)
			if !ok {
				return
			}
			cal := calleeOf(call)
			if cal == nil || !c.inModule(cal) {
				return
			}
			out.fn, out.negated, out.ok = cal, neg, true
			// the two operands are passed in order
			var vals []ssa.Value
			for _, a := range call.Call.Args {
				if a.Type().String() == "interface{}" || a.Type().String() == "any" {
					vals = append(vals, a)
				}
			}
			out.inOrder = len(ops) == 2 && len(vals) == 2 && vals[0] == ssa.Value(ops[0]) && vals[1] == ssa.Value(ops[1])
		})
		if n != 1 {
			out.ok = false
		}
		sort.Strings(guards)
		out.guards = strings.Join(guards, ",")
		return out
	}
	// an arm that calls the equality function directly from the dispatcher (wrapper inlined):
	// `return r.valueLikeEqualTo(v1, v2), nil` / `return !r.valueLikeEqualTo(v1, v2), nil`
	analyseArm := func(arm OpArm) retFn {
		h := arm.Handler
		if h == nil || arm.Call == nil || arm.Fold == nil || h.Signature.Results().Len() != 1 || !isBoolType(h.Signature.Results().At(0).Type()) {
			return analyse(h)
		}
		var out retFn
		n := 0
		for _, ret := range arm.Fold.Returns {
			if len(ret.Results) == 0 {
				continue
			}
			v := ret.Results[0]
			if mi, ok := v.(*ssa.MakeInterface); ok {
				v = mi.X
			}
			neg := false
			if u, ok := v.(*ssa.UnOp); ok && u.Op == token.NOT {
				neg = true
				v = u.X
			}
			if v != ssa.Value(arm.Call) {
				continue
			}
			n++
			out.fn, out.negated, out.ok = h, neg, true
		}
		if n != 1 {
			out.ok = false
		}
		// operands: the evaluated Left, then the evaluated Right
		side := func(v ssa.Value) string {
			for _, rt := range plainOrigins.Roots(v) {
				if rt.Kind != "call" {
					continue
				}
				if call, ok := rt.V.(*ssa.Call); ok {
					for _, a := range call.Call.Args {
						for _, r2 := range plainOrigins.Roots(a) {
							if r2.Kind == "param" && len(r2.Path) == 1 && (r2.Path[0] == "Left" || r2.Path[0] == "Right") {
								return r2.Path[0]
							}
						}
					}
				}
			}
			return ""
		}
		var vals []ssa.Value
		for _, a := range arm.Call.Call.Args {
			if a.Type().String() == "interface{}" || a.Type().String() == "any" {
				vals = append(vals, a)
			}
		}
		out.inOrder = len(vals) == 2 && side(vals[0]) == "Left" && side(vals[1]) == "Right"
		return out
	}
	const rn = "C05.negation-pair"
	for _, pr := range []struct {
		name     string
		pos, neg OpArm
	}{{"==/!=", eq, ne}, {"===/!==", seq, sne}} {
		a, b := analyseArm(pr.pos), analyseArm(pr.neg)
		if !a.ok || !b.ok {
			c.R.Check(rn, pr.name, pr.pos.Pos, false, "the handlers of "+pr.name+" must each return (the negation of) one call of an equality function")
			continue
		}
		c.R.Check(rn, pr.name, pr.neg.Pos, a.fn == b.fn && !a.negated && b.negated && a.inOrder && b.inOrder && a.guards == b.guards,
			fmt.Sprintf("`%s`: positive handler returns %s%s, negative handler returns %s%s, operands in order %v/%v, operands refused first by [%s] / [%s]; the negative operator must be exactly the negation of the positive one", pr.name, neg(a.negated), c.P.FuncKey(a.fn), neg(b.negated), c.P.FuncKey(b.fn), a.inOrder, b.inOrder, a.guards, b.guards))
	}
	c.R.Floor(rn, 2)
	// what such a guard may refuse: only what Go's == cannot take
	seenG := map[*ssa.Function]bool{}
	for _, arm := range []OpArm{eq, ne, seq, sne} {
		for _, g := range analyseArm(arm).gfns {
			if !seenG[g] {
				seenG[g] = true
				c05RefusalGuard(c, g)
			}
		}
	}

	const re = "C05.equality-predicate"
	loose, strict := analyseArm(eq).fn, analyseArm(seq).fn
	if looseNullRule != "" {
		c05LooseNull(c, loose, looseNullRule)
		return
	}
	for _, fe := range []struct {
		name string
		f    *ssa.Function
	}{{"loose", loose}, {"strict", strict}} {
		if fe.f == nil {
			c.R.Undecided(re, fe.name, "-", "equality function not found")
			continue
		}
		f := fe.f
		ops := operandParams(f)
		if len(ops) != 2 {
			c.R.Undecided(re, fe.name, c.P.Pos(f.Pos()), "equality function does not take two operand values")
			continue
		}
		pos := c.P.Pos(f.Pos())
		base := []Pin{
			pinCall("formula.IsNull", cFalse, nil),
			c.pinIfaceEq(ops[0], ops[1], false),
			pinTypeOfEq(true),
		}
		// numbers: (F,T,F) over Cmp
		var got [3]bool
		okVec := true
		for i, cmp := range []int64{-1, 0, 1} {
			ps := append([]Pin{pinTypeCase(ops[0], "*decimal.Big"), pinCall("decimal.Big).Cmp", cInt(cmp), nil)}, base...)
			r := c.foldWith(f, 1, ps...)
			b, ok := boolResult(r, 0)
			if !ok {
				okVec = false
			}
			got[i] = b
		}
		if !okVec {
			c.R.Undecided(re, fe.name+":number", pos, "number arm does not fold over Cmp")
		} else {
			c.R.Check(re, fe.name+":number", pos, got == [3]bool{false, true, false}, fmt.Sprintf("number equality yields (%s,%s,%s) for Cmp = (-1,0,+1); must be (F,T,F)", tf(got[0]), tf(got[1]), tf(got[2])))
		}
		// the Cmp callee is value comparison
		instrs(f, func(b *ssa.BasicBlock, i int, in ssa.Instruction) {
			if call, ok := in.(*ssa.Call); ok {
				if cal := calleeOf(call); cal != nil && strings.Contains(cal.String(), "ericlagergren/decimal") && strings.HasPrefix(cal.Name(), "Cmp") {
					c.R.Check(re, fe.name+":compare-by-value", c.P.InstrPos(in), cal.String() == "(*github.com/ericlagergren/decimal.Big).Cmp", "equality of numbers must use (*Big).Cmp (numeric value), found "+cal.String())
				}
			}
		})
		// strings: Go == on the two operands
		ps := append([]Pin{pinTypeCase(ops[0], "string")}, base...)
		r := c.foldWith(f, 1, ps...)
		okStr := len(r.Returns) > 0
		for _, ret := range r.Returns {
			one := false
			if bo, ok := ret.Results[0].(*ssa.BinOp); ok && bo.Op == token.EQL {
				if c.derivedFrom(bo.X, ops[0]) && c.derivedFrom(bo.Y, ops[1]) || c.derivedFrom(bo.X, ops[1]) && c.derivedFrom(bo.Y, ops[0]) {
					one = true
				}
			}
			if !one {
				okStr = false
			}
		}
		c.R.Check(re, fe.name+":string", pos, okStr, "string equality must be Go `==` on the two operands' strings on every path of the string arm (no numeric or other coercion first: '1.0' and '1' are different strings)")
	}
	c05LooseNull(c, loose, re)
	// strict: same-kind gate
	const rs = "C05.strict-same-kind"
	if strict != nil {
		f := strict
		ops := operandParams(f)
		pos := c.P.Pos(f.Pos())
		if len(ops) == 2 {
			// null === null
			r := c.foldWith(f, 1, pinCall("formula.IsNull", cTrue, nil))
			b, ok := boolResult(r, 0)
			c.R.Check(rs, "null-null", pos, ok && b, "both operands null must be strictly equal")
			// one null, other not, different types: false
			r = c.foldWith(f, 1, pinCall("formula.IsNull", cTrue, func(call *ssa.Call) bool { return call.Call.Args[0] == ssa.Value(ops[0]) }),
				pinCall("formula.IsNull", cFalse, nil), c.pinIfaceEq(ops[0], ops[1], false), pinTypeOfEq(false))
			b, ok = boolResult(r, 0)
			c.R.Check(rs, "null-nonnull", pos, ok && !b, "null === non-null must be false")
			// different dynamic types: false whatever the kinds are
			for _, k := range []string{"*decimal.Big", "string", "bool", "other"} {
				r = c.foldWith(f, 1, pinCall("formula.IsNull", cFalse, nil), c.pinIfaceEq(ops[0], ops[1], false), pinTypeOfEq(false), pinTypeCase(ops[0], k),
					pinCall("decimal.Big).Cmp", cInt(0), nil))
				b, ok = boolResult(r, 0)
				c.R.Check(rs, "different-types:"+k, pos, ok && !b, "operands of different dynamic types must not be strictly equal (left kind "+k+"); the per-kind comparison must sit behind the identical-type test")
			}
			// same type, unsupported kind: false
			r = c.foldWith(f, 1, pinCall("formula.IsNull", cFalse, nil), c.pinIfaceEq(ops[0], ops[1], false), pinTypeOfEq(true), pinTypeCase(ops[0], "other"))
			b, ok = boolResult(r, 0)
			c.R.Check(rs, "fallthrough-false", pos, ok && !b, "values of a kind other than number, boolean, string (and not identical) fall through to false")
			// the gate compares reflect.TypeOf of operand 1 with that of operand 2
			gate := false
			instrs(f, func(bk *ssa.BasicBlock, i int, in ssa.Instruction) {
				bo, ok := in.(*ssa.BinOp)
				if !ok || (bo.Op != token.EQL && bo.Op != token.NEQ) {
					return
				}
				x, okx := bo.X.(*ssa.Call)
				y, oky := bo.Y.(*ssa.Call)
				if okx && oky && callName(x) == "reflect.TypeOf" && callName(y) == "reflect.TypeOf" {
					a0, a1 := stripIface(x.Call.Args[0]), stripIface(y.Call.Args[0])
					if (a0 == ssa.Value(ops[0]) && a1 == ssa.Value(ops[1])) || (a0 == ssa.Value(ops[1]) && a1 == ssa.Value(ops[0])) {
						gate = true
					}
				}
			})
			c.R.Check(rs, "type-gate", pos, gate, "strict equality needs the test reflect.TypeOf(a) == reflect.TypeOf(b) over its two operands")
			// bool kind compares the asserted booleans
			r = c.foldWith(f, 1, pinCall("formula.IsNull", cFalse, nil), c.pinIfaceEq(ops[0], ops[1], false), pinTypeOfEq(true), pinTypeCase(ops[0], "bool"))
			okB := false
			for _, ret := range r.Returns {
				if bo, ok := ret.Results[0].(*ssa.BinOp); ok && bo.Op == token.EQL {
					if c.derivedFrom(bo.X, ops[0]) && c.derivedFrom(bo.Y, ops[1]) || c.derivedFrom(bo.X, ops[1]) && c.derivedFrom(bo.Y, ops[0]) {
						okB = true
					}
				}
			}
			// ... or, as the loose form does, their images under the number coercion (true is 1, false is 0:
			// C05.equality-predicate reads that table) compared with Cmp(..) == 0
			if !okB {
				coerce := c.fn("convToNumber")
				for _, ret := range r.Returns {
					bo, ok := ret.Results[0].(*ssa.BinOp)
					if !ok || bo.Op != token.EQL || coerce == nil {
						continue
					}
					if k, isK := constIntArg(bo.Y); !isK || k != 0 {
						continue
					}
					cmp, ok := bo.X.(*ssa.Call)
					if !ok || !strings.HasSuffix(callName(cmp), "decimal.Big).Cmp") || len(cmp.Call.Args) != 2 {
						continue
					}
					side := func(v ssa.Value) int {
						cl, ok := v.(*ssa.Call)
						if !ok || calleeOf(cl) != coerce || len(cl.Call.Args) != 1 {
							return -1
						}
						switch {
						case c.derivedFrom(cl.Call.Args[0], ops[0]):
							return 0
						case c.derivedFrom(cl.Call.Args[0], ops[1]):
							return 1
						}
						return -1
					}
					if a, b := side(cmp.Call.Args[0]), side(cmp.Call.Args[1]); a >= 0 && b >= 0 && a != b {
						okB = true
					}
				}
			}
			c.R.Check(rs, "bool-kind", pos, okB, "booleans of identical type compare with Go == on the two values")
		}
	}
	c.R.Floor(re, 6)
	c.R.Floor(rs, 8)
}

func neg(b bool) string {
	if b {
		return "!"
	}
	return ""
}

func stripIface(v ssa.Value) ssa.Value {
	for {
		switch x := v.(type) {
		case *ssa.MakeInterface:
			v = x.X
		case *ssa.ChangeInterface:
			v = x.X
		default:
			return v
		}
	}
}

// derivedFrom: every root of v is parameter p (through assertions, conversions helpers).
func (c *Ctx) derivedFrom(v ssa.Value, p *ssa.Parameter) bool {
	rs := plainOrigins.Roots(v)
	if len(rs) == 0 {
		return false
	}
	for _, r := range rs {
		switch r.Kind {
		case "param":
			if r.V != ssa.Value(p) {
				return false
			}
		case "call":
			call := r.V.(*ssa.Call)
			okc := false
			for _, a := range call.Call.Args {
				if c.derivedFrom(a, p) {
					okc = true
				}
			}
			if !okc {
				return false
			}
		default:
			return false
		}
	}
	return true
}

// pinIfaceEq pins `a == b` on the two interface operands themselves.
func (c *Ctx) pinIfaceEq(a, b ssa.Value, val bool) Pin {
	return func(v ssa.Value) (constantValue, bool) {
		// `identical(a, b)`: a module helper that is `a == b` behind the tests that keep Go from panicking on
		// operands it cannot compare
		if call, isCall := v.(*ssa.Call); isCall {
			if g := calleeOf(call); g != nil && c.inModule(g) && len(call.Call.Args) == 2 && c.guardedIdentity(g) {
				x, y := stripIface(call.Call.Args[0]), stripIface(call.Call.Args[1])
				if (x == a && y == b) || (x == b && y == a) {
					return boolConst(val), true
				}
			}
			return nil, false
		}
		bo, ok := v.(*ssa.BinOp)
		if !ok || (bo.Op != token.EQL && bo.Op != token.NEQ) {
			return nil, false
		}
		if (bo.X == a && bo.Y == b) || (bo.X == b && bo.Y == a) {
			if bo.Op == token.NEQ {
				return boolConst(!val), true
			}
			return boolConst(val), true
		}
		return nil, false
	}
}

// pinTypeOfEq pins `reflect.TypeOf(x) == reflect.TypeOf(y)`.
func pinTypeOfEq(val bool) Pin {
	return func(v ssa.Value) (constantValue, bool) {
		bo, ok := v.(*ssa.BinOp)
		if !ok || (bo.Op != token.EQL && bo.Op != token.NEQ) {
			return nil, false
		}
		x, okx := bo.X.(*ssa.Call)
		y, oky := bo.Y.(*ssa.Call)
		if okx && oky && callName(x) == "reflect.TypeOf" && callName(y) == "reflect.TypeOf" {
			if bo.Op == token.NEQ {
				return boolConst(!val), true
			}
			return boolConst(val), true
		}
		return nil, false
	}
}

// relationalViaKernel handles the form `return threeWay(left, right) OP k, nil` where threeWay is a module function
// returning the three-way comparison (-1, 0, +1): (*Big).Cmp on numbers, strings.Compare on strings. It emits the same
// three obligations as the direct form. Returns false when the handler does not have that form.
func (c *Ctx) relationalViaKernel(rule, symbol string, vec [3]bool, h *ssa.Function, ops []*ssa.Parameter) bool {
	var kcall *ssa.Call
	n := 0
	instrs(h, func(b *ssa.BasicBlock, i int, in ssa.Instruction) {
		if call, ok := in.(*ssa.Call); ok {
			if g := calleeOf(call); g != nil && c.inModule(g) && g.Signature.Results().Len() == 1 && isIntType(g.Signature.Results().At(0).Type()) {
				kcall = call
				n++
			}
		}
	})
	if n != 1 {
		return false
	}
	g := calleeOf(kcall)
	gops := operandParams(g)
	if len(gops) != 2 {
		return false
	}
	pos := c.P.Pos(h.Pos())
	// operands handed over in order
	var vals []ssa.Value
	for _, a := range kcall.Call.Args {
		if a.Type().String() == "interface{}" || a.Type().String() == "any" {
			vals = append(vals, a)
		}
	}
	inOrder := len(vals) == 2 && vals[0] == ssa.Value(ops[0]) && vals[1] == ssa.Value(ops[1])
	// the predicate over the three-way result
	var got [3]bool
	okVec := true
	for i, r3 := range []int64{-1, 0, 1} {
		r := c.foldWith(h, 0, pinCallFn(g, cInt(r3), nil))
		b, ok := boxedBoolResult(r, 0)
		if !ok {
			okVec = false
		}
		got[i] = b
	}
	if !okVec {
		c.R.Undecided(rule, "numeric-vector:"+symbol, pos, "the handler does not fold to a boolean over the three-way comparison's results")
	} else {
		c.R.Check(rule, "numeric-vector:"+symbol, pos, got == vec && inOrder, fmt.Sprintf("`a %s b` yields (%s,%s,%s) for a three-way comparison of (-1,0,+1), operands in order=%v; it must be (%s,%s,%s)", symbol, tf(got[0]), tf(got[1]), tf(got[2]), inOrder, tf(vec[0]), tf(vec[1]), tf(vec[2])))
	}
	// the kernel: numbers by (*Big).Cmp(left, right), strings by strings.Compare(left, right), returned as they are
	kernelReturns := func(dyn, callee string) (bool, string) {
		r := c.foldWith(g, 0, pinTypeCase(gops[0], dyn))
		if len(r.Returns) == 0 {
			return false, "no return"
		}
		for _, ret := range r.Returns {
			call, ok := ret.Results[0].(*ssa.Call)
			if !ok {
				return false, "returns " + describeValue(ret.Results[0])
			}
			cal := calleeOf(call)
			if cal == nil || cal.String() != callee {
				return false, "returns the result of " + describeValue(call)
			}
			args := call.Call.Args
			if len(args) != 2 || !c.coercedFrom(args[0], gops[0]) || !c.coercedFrom(args[1], gops[1]) {
				return false, "operands not in (left, right) order"
			}
		}
		return true, ""
	}
	okN, whyN := kernelReturns("*decimal.Big", "(*github.com/ericlagergren/decimal.Big).Cmp")
	c.R.Check(rule, "numeric-compare:"+symbol, c.P.Pos(g.Pos()), okN, "numbers must be compared by value with (*Big).Cmp(left, right): "+whyN)
	okS, whyS := kernelReturns("string", "strings.Compare")
	c.R.Check(rule, "string-operator:"+symbol, c.P.Pos(g.Pos()), okS, "strings must compare byte-wise (strings.Compare(left, right) or Go's `"+symbol+"`): "+whyS)
	return true
}

var guardedIdentityCache = map[*ssa.Function]bool{}

// guardedIdentity: g(p, q interface) bool returns p == q on every path that does not return the constant false, and
// for operands of one comparable dynamic type it does reach that comparison (the early `false`s are taken only for
// operands of different types or of a type Go cannot compare - for which `p == q` is false or panics).
func (c *Ctx) guardedIdentity(g *ssa.Function) bool {
	if v, ok := guardedIdentityCache[g]; ok {
		return v
	}
	res := false
	defer func() { guardedIdentityCache[g] = res }()
	if len(g.Blocks) == 0 || len(g.Params) != 2 || g.Signature.Results().Len() != 1 || !isBoolType(g.Signature.Results().At(0).Type()) {
		return false
	}
	for _, p := range g.Params {
		if _, isI := p.Type().Underlying().(*types.Interface); !isI {
			return false
		}
	}
	isCmp := func(v ssa.Value) bool {
		bo, ok := v.(*ssa.BinOp)
		return ok && bo.Op == token.EQL && (bo.X == ssa.Value(g.Params[0]) && bo.Y == ssa.Value(g.Params[1]) || bo.X == ssa.Value(g.Params[1]) && bo.Y == ssa.Value(g.Params[0]))
	}
	shape, ncmp := true, 0
	instrs(g, func(b *ssa.BasicBlock, i int, in ssa.Instruction) {
		ret, ok := in.(*ssa.Return)
		if !ok {
			return
		}
		if k, isK := ret.Results[0].(*ssa.Const); isK && k.Value != nil && k.Value.String() == "false" {
			return
		}
		if isCmp(ret.Results[0]) {
			ncmp++
			return
		}
		shape = false
	})
	if !shape || ncmp == 0 {
		return false
	}
	// same comparable type: only the comparison is returned
	typeFacts := func(v ssa.Value) (constantValue, bool) {
		switch x := v.(type) {
		case *ssa.Call:
			if x.Call.IsInvoke() && x.Call.Method.Name() == "Comparable" {
				return boolConst(true), true
			}
		case *ssa.BinOp:
			if x.Op == token.EQL || x.Op == token.NEQ {
				cx, okx := x.X.(*ssa.Call)
				_, isNil := x.Y.(*ssa.Const)
				if okx && isNil && isNilConst(x.Y) && callName(cx) == "reflect.TypeOf" {
					return boolConst(x.Op == token.NEQ), true
				}
			}
		}
		return nil, false
	}
	r := c.foldWith(g, 0, pinTypeOfEq(true), typeFacts)
	if len(r.Returns) == 0 {
		return false
	}
	for _, ret := range r.Returns {
		if !isCmp(ret.Results[0]) {
			return false
		}
	}
	res = true
	return true
}

// c05LooseNull: two null-like operands (null, a missing entry, a typed nil pointer) are loosely equal, whatever their
// dynamic types: with the null test answering true for both and the identity test false, the loose equality is true.
func c05LooseNull(c *Ctx, loose *ssa.Function, rule string) {
	if loose == nil {
		c.R.Undecided(rule, "loose:null-null", "-", "loose equality function not found")
		return
	}
	ops := operandParams(loose)
	if len(ops) != 2 {
		return
	}
	for _, k := range []string{"nil", "other"} {
		r := c.foldWith(loose, 1, pinCall("formula.IsNull", cTrue, nil), c.pinIfaceEq(ops[0], ops[1], false), pinTypeOfEq(false), pinTypeCase(ops[0], k))
		b, ok := boolResult(r, 0)
		c.R.Check(rule, "loose:null-null:"+k, c.P.Pos(loose.Pos()), ok && b, "two null-like operands (null, a missing entry, a typed nil pointer) must be loosely equal although they are not identical values: the null test must stand beside the identity test (left operand: "+k+")")
	}
}

// c05RefusalGuard: a function whose error an equality handler hands on before comparing (`checkComparable(v1, v2)`)
// may refuse only operands on which Go's == panics: two values of one and the same dynamic type that is not
// comparable. Every error it makes must therefore sit behind the identity of the two operands' reflect.Types (operands
// of different types - also of the same kind, []interface{} against []int - are simply unequal), and no method may be
// called on a reflect.Type that can be the nil Type of a null operand (`null === null` would fail).
func c05RefusalGuard(c *Ctx, g *ssa.Function) {
	const rule = "C05.refusal-only-where-comparison-panics"
	if len(g.Blocks) == 0 {
		return
	}
	var ops []*ssa.Parameter
	for _, p := range g.Params {
		if _, isI := p.Type().Underlying().(*types.Interface); isI {
			ops = append(ops, p)
		}
	}
	if len(ops) != 2 {
		return
	}
	typeOf := func(v ssa.Value) *ssa.Parameter {
		for _, rt := range plainOrigins.Roots(v) {
			if rt.Kind == "call" && rt.Fn != nil && rt.Fn.String() == "reflect.TypeOf" && len(rt.Path) == 0 {
				if call, ok := rt.V.(*ssa.Call); ok {
					a := stripIface(call.Call.Args[0])
					for _, p := range ops {
						if a == ssa.Value(p) {
							return p
						}
					}
				}
			}
		}
		return nil
	}
	// edges on which a fact holds
	type edge struct {
		b *ssa.BasicBlock
		k int
	}
	var identity []edge
	nonNil := map[ssa.Value][]edge{}
	for _, b := range g.Blocks {
		if len(b.Instrs) == 0 {
			continue
		}
		iff, ok := b.Instrs[len(b.Instrs)-1].(*ssa.If)
		if !ok {
			continue
		}
		bo, ok := iff.Cond.(*ssa.BinOp)
		if !ok || (bo.Op != token.EQL && bo.Op != token.NEQ) {
			continue
		}
		eqEdge := 0
		if bo.Op == token.NEQ {
			eqEdge = 1
		}
		px, py := typeOf(bo.X), typeOf(bo.Y)
		switch {
		case px != nil && py != nil && px != py:
			identity = append(identity, edge{b, eqEdge})
		case px != nil && isNilConst(bo.Y):
			nonNil[bo.X] = append(nonNil[bo.X], edge{b, 1 - eqEdge})
		case py != nil && isNilConst(bo.X):
			nonNil[bo.Y] = append(nonNil[bo.Y], edge{b, 1 - eqEdge})
		}
	}
	holdsAt := func(es []edge, at *ssa.BasicBlock) bool {
		for _, e := range es {
			t := e.b.Succs[e.k]
			if len(t.Preds) == 1 && (t == at || t.Dominates(at)) {
				return true
			}
		}
		return false
	}
	n := 0
	instrs(g, func(b *ssa.BasicBlock, i int, in ssa.Instruction) {
		switch x := in.(type) {
		case *ssa.Return:
			if len(x.Results) == 0 {
				return
			}
			fresh := false
			for _, rt := range plainOrigins.Roots(x.Results[len(x.Results)-1]) {
				if rt.Kind == "call" && rt.Fn != nil && (rt.Fn.String() == "fmt.Errorf" || rt.Fn.String() == "errors.New") {
					fresh = true
				}
			}
			if !fresh {
				return
			}
			n++
			c.R.Check(rule, fmt.Sprintf("%s:refusal#%d:identical-types", c.P.FuncKey(g), n), c.P.InstrPos(in), holdsAt(identity, b), "the operands are refused although their dynamic types have not been found identical (reflect.TypeOf(a) == reflect.TypeOf(b)): Go's == panics only for two values of the same uncomparable type; operands of different types, also of the same kind, are just unequal")
		case *ssa.Call:
			if !x.Call.IsInvoke() || typeOf(x.Call.Value) == nil {
				return
			}
			n++
			c.R.Check(rule, fmt.Sprintf("%s:%s-on-type#%d:not-nil", c.P.FuncKey(g), x.Call.Method.Name(), n), c.P.InstrPos(in), holdsAt(nonNil[x.Call.Value], b), "a method is called on the reflect.Type of an operand without a test that it is not nil: the Type of a null operand is nil, so `null === null` fails instead of being true")
		}
	})
}
