package main

import (
	"fmt"
	"go/constant"
	"strings"
	"unicode"

	"golang.org/x/tools/go/ssa"
)

// c17TrimSet: "trim strips surrounding white space" - the white space of strings.TrimSpace (unicode.IsSpace). When
// the builtin trims with a character set, every constant set that can reach strings.Trim as the cutset of the plain
// `trim(s)` form must hold all of it: " \t\r\n" leaves \v, \f, U+0085, U+00A0, U+3000 ... in place.
func c17TrimSet(c *Ctx) {
	const rule = "C17.trim-whitespace-set"
	f := c.BuiltinFn("trim")
	if f == nil {
		return
	}
	var spaces []rune
	for r := rune(0); r <= 0x3000; r++ {
		if unicode.IsSpace(r) {
			spaces = append(spaces, r)
		}
	}
	n := 0
	instrs(f, func(b *ssa.BasicBlock, i int, in ssa.Instruction) {
		call, ok := in.(*ssa.Call)
		if !ok {
			return
		}
		cal := calleeOf(call)
		if cal == nil {
			return
		}
		switch cal.String() {
		case "strings.TrimSpace":
			n++
			c.R.Add(rule, fmt.Sprintf("TrimSpace#%d", n), c.P.InstrPos(in), OK, "")
		case "strings.Trim":
			for _, rt := range plainOrigins.Roots(call.Call.Args[1]) {
				k, isK := rt.V.(*ssa.Const)
				if rt.Kind != "const" || !isK || k.Value == nil || k.Value.Kind() != constant.String {
					continue
				}
				n++
				set := constant.StringVal(k.Value)
				missing := ""
				for _, r := range spaces {
					if !strings.ContainsRune(set, r) {
						missing += fmt.Sprintf(" U+%04X", r)
					}
				}
				c.R.Check(rule, fmt.Sprintf("Trim-set#%d", n), c.P.InstrPos(in), missing == "", fmt.Sprintf("the constant cutset %q can reach strings.Trim in `trim`; white space is what strings.TrimSpace strips (unicode.IsSpace), and the set lacks%s", set, missing))
			}
		}
	})
	c.R.Analysed["trim_primitives_judged"] = n
}
