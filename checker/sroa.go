package main

import (
	"fmt"
	"go/ast"
	"go/token"
	"go/types"
	"os"
	"sort"
	"strings"
)

// Scalar replacement of small local structs (source-to-source, in memory; the last step of the helper expansion).
//
// A helper that hands back several values as a small struct (`sig := describeCallee(t)` ... `sig.hasVariadic`) leaves,
// once expanded, a local struct variable that is built from a composite literal, copied whole once or twice, and then
// only read field by field. In SSA form such a variable is a memory cell with field addresses; the rules, which follow
// values, lose track of what is in it. A local variable of a struct type of this package is therefore split into one
// plain local per field when every use of it is one of:
//
//	var v T            v := T{..}   v = T{..}   var v T = T{..}      (positional or keyed literal of exactly T)
//	v := w   v = w     var v T = w                                   (w another such variable: a whole copy)
//	v.f  (read or written, not address-taken)                        _ = v
//
// Anything else (passed to a call, returned, compared, address taken, method called on it, embedded fields) leaves the
// variable - and everything it is copied from or to - alone. The rewritten package must type-check or is dropped.
func sroaStructs(p *Prog, overlay map[string][]byte) (map[string][]byte, []string) {
	info := p.Root.TypesInfo
	fset := p.Fset
	srcOf := map[string][]byte{}
	read := func(name string) []byte {
		if b, ok := srcOf[name]; ok {
			return b
		}
		b, ok := overlay[name]
		if !ok {
			b, _ = os.ReadFile(name)
		}
		srcOf[name] = b
		return b
	}
	fileOf := func(pos token.Pos) string { return fset.File(pos).Name() }
	off := func(pos token.Pos) int { return fset.File(pos).Offset(pos) }
	text := func(a, b token.Pos) string { return string(read(fileOf(a))[off(a):off(b)]) }
	qual := func(pk *types.Package) string {
		if pk == p.Types {
			return ""
		}
		return pk.Name()
	}

	structOf := func(t types.Type) *types.Struct {
		st, ok := t.Underlying().(*types.Struct)
		if !ok || st.NumFields() == 0 || st.NumFields() > 8 {
			return nil
		}
		if nt, ok := t.(*types.Named); ok {
			if nt.Obj().Pkg() != p.Types || nt.TypeArgs().Len() > 0 {
				return nil
			}
		}
		for i := 0; i < st.NumFields(); i++ {
			if st.Field(i).Embedded() {
				return nil
			}
		}
		return st
	}

	type use struct {
		kind string // "field" | "zero" | "init" | "assign" | "discard"
		node ast.Node
		sel  *ast.SelectorExpr
		rhs  ast.Expr
		tok  token.Token
	}
	edits := map[string][]textEdit{}
	var done []string
	serial := 0
	for _, f := range p.Root.Syntax {
		for _, d := range f.Decls {
			fd, ok := d.(*ast.FuncDecl)
			if !ok || fd.Body == nil {
				continue
			}
			parent := map[ast.Node]ast.Node{}
			var stack []ast.Node
			ast.Inspect(fd.Body, func(n ast.Node) bool {
				if n == nil {
					stack = stack[:len(stack)-1]
					return true
				}
				if len(stack) > 0 {
					parent[n] = stack[len(stack)-1]
				}
				stack = append(stack, n)
				return true
			})
			cands := map[*types.Var]*types.Struct{}
			uses := map[*types.Var][]use{}
			rejected := map[*types.Var]bool{}
			copies := map[*types.Var][]*types.Var{}
			candOf := func(id *ast.Ident) *types.Var {
				var o types.Object = info.Defs[id]
				if o == nil {
					o = info.Uses[id]
				}
				v, ok := o.(*types.Var)
				if !ok || v.IsField() || v.Parent() == nil || v.Parent() == p.Types.Scope() {
					return nil
				}
				if !(v.Pos() >= fd.Body.Pos() && v.Pos() < fd.Body.End()) {
					return nil // parameters and results stay
				}
				st := structOf(v.Type())
				if st == nil {
					return nil
				}
				cands[v] = st
				return v
			}
			// a right-hand side that can be taken apart: a literal of exactly the variable's type, or another candidate
			okRhs := func(v *types.Var, e ast.Expr) bool {
				for {
					pe, ok := e.(*ast.ParenExpr)
					if !ok {
						break
					}
					e = pe.X
				}
				switch x := e.(type) {
				case *ast.CompositeLit:
					if !types.Identical(info.TypeOf(x), v.Type()) {
						return false
					}
					st := cands[v]
					keyed := false
					for _, el := range x.Elts {
						if _, ok := el.(*ast.KeyValueExpr); ok {
							keyed = true
						}
					}
					if !keyed && len(x.Elts) != 0 && len(x.Elts) != st.NumFields() {
						return false
					}
					return true
				case *ast.Ident:
					w := candOf(x)
					if w == nil || !types.Identical(w.Type(), v.Type()) {
						return false
					}
					copies[v] = append(copies[v], w)
					copies[w] = append(copies[w], v)
					return true
				}
				return false
			}
			ast.Inspect(fd.Body, func(n ast.Node) bool {
				id, ok := n.(*ast.Ident)
				if !ok {
					return true
				}
				v := candOf(id)
				if v == nil {
					return true
				}
				reject := func() { rejected[v] = true }
				switch par := parent[id].(type) {
				case *ast.SelectorExpr:
					if par.X != ast.Expr(id) {
						return true
					}
					sel := info.Selections[par]
					if sel == nil || sel.Kind() != types.FieldVal || len(sel.Index()) != 1 {
						reject()
						return true
					}
					if ue, ok := parent[par].(*ast.UnaryExpr); ok && ue.Op == token.AND {
						reject()
						return true
					}
					uses[v] = append(uses[v], use{kind: "field", node: par, sel: par})
				case *ast.ValueSpec:
					gd, _ := parent[par].(*ast.GenDecl)
					ds, _ := parent[gd].(*ast.DeclStmt)
					if gd == nil || ds == nil || len(gd.Specs) != 1 || gd.Lparen.IsValid() || len(par.Names) != 1 || par.Names[0] != id {
						// used as a value of another declaration?
						isName := false
						for _, nm := range par.Names {
							if nm == id {
								isName = true
							}
						}
						if !isName && len(par.Names) == 1 && len(par.Values) == 1 && par.Values[0] == ast.Expr(id) {
							return true // the other side records the copy
						}
						reject()
						return true
					}
					switch len(par.Values) {
					case 0:
						uses[v] = append(uses[v], use{kind: "zero", node: ds})
					case 1:
						if !okRhs(v, par.Values[0]) {
							reject()
							return true
						}
						uses[v] = append(uses[v], use{kind: "init", node: ds, rhs: par.Values[0]})
					default:
						reject()
					}
				case *ast.AssignStmt:
					if len(par.Lhs) == 1 && len(par.Rhs) == 1 && par.Lhs[0] == ast.Expr(id) && (par.Tok == token.DEFINE || par.Tok == token.ASSIGN) {
						if !okRhs(v, par.Rhs[0]) {
							reject()
							return true
						}
						switch parent[par].(type) {
						case *ast.BlockStmt, *ast.CaseClause, *ast.CommClause, *ast.LabeledStmt:
						default:
							reject() // an init statement
							return true
						}
						uses[v] = append(uses[v], use{kind: "assign", node: par, rhs: par.Rhs[0], tok: par.Tok})
						return true
					}
					if len(par.Lhs) == 1 && len(par.Rhs) == 1 && par.Rhs[0] == ast.Expr(id) {
						if l, ok := par.Lhs[0].(*ast.Ident); ok {
							if l.Name == "_" && par.Tok == token.ASSIGN {
								uses[v] = append(uses[v], use{kind: "discard", node: par})
								return true
							}
							if w := candOf(l); w != nil && types.Identical(w.Type(), v.Type()) {
								return true // the other side records the copy
							}
						}
					}
					reject()
				default:
					reject()
				}
				return true
			})
			// a rejected variable drags along what it is copied from and to
			for changed := true; changed; {
				changed = false
				for v := range cands {
					if rejected[v] {
						for _, w := range copies[v] {
							if !rejected[w] {
								rejected[w] = true
								changed = true
							}
						}
					}
				}
			}
			var vs []*types.Var
			for v := range cands {
				if !rejected[v] && len(uses[v]) > 0 {
					vs = append(vs, v)
				}
			}
			sort.Slice(vs, func(i, j int) bool { return vs[i].Pos() < vs[j].Pos() })
			names := map[*types.Var][]string{}
			for _, v := range vs {
				serial++
				st := cands[v]
				for i := 0; i < st.NumFields(); i++ {
					names[v] = append(names[v], fmt.Sprintf("%s_%s_%d", v.Name(), st.Field(i).Name(), serial))
				}
			}
			// field selections anywhere, so that texts lifted out of statements are rewritten too
			type rng struct{ a, b int }
			fieldRepl := map[*ast.SelectorExpr]string{}
			for _, v := range vs {
				for _, u := range uses[v] {
					if u.kind == "field" {
						fieldRepl[u.sel] = names[v][info.Selections[u.sel].Index()[0]]
					}
				}
			}
			rtext := func(a, b token.Pos) string {
				var es []textEdit
				base := off(a)
				for sel, r := range fieldRepl {
					if sel.Pos() >= a && sel.End() <= b && fileOf(sel.Pos()) == fileOf(a) {
						es = append(es, textEdit{off(sel.Pos()) - base, off(sel.End()) - base, r})
					}
				}
				return string(applyEdits([]byte(text(a, b)), es))
			}
			var stmtRanges []rng
			// the parts of a right-hand side, one text per field
			parts := func(v *types.Var, e ast.Expr) []string {
				for {
					pe, ok := e.(*ast.ParenExpr)
					if !ok {
						break
					}
					e = pe.X
				}
				st := cands[v]
				out := make([]string, st.NumFields())
				for i := range out {
					out[i] = "*new(" + types.TypeString(st.Field(i).Type(), qual) + ")"
				}
				switch x := e.(type) {
				case *ast.Ident:
					w := candOf(x)
					copy(out, names[w])
				case *ast.CompositeLit:
					for i, el := range x.Elts {
						if kv, ok := el.(*ast.KeyValueExpr); ok {
							k, _ := kv.Key.(*ast.Ident)
							for j := 0; j < st.NumFields(); j++ {
								if k != nil && st.Field(j).Name() == k.Name {
									out[j] = rtext(kv.Value.Pos(), kv.Value.End())
								}
							}
						} else if i < len(out) {
							out[i] = rtext(el.Pos(), el.End())
						}
					}
				}
				return out
			}
			for _, v := range vs {
				st := cands[v]
				nm := names[v]
				file := fileOf(v.Pos())
				for _, u := range uses[v] {
					switch u.kind {
					case "field":
						// added below, unless it sits inside a rewritten statement
					case "zero", "init":
						var b strings.Builder
						var ps []string
						if u.kind == "init" {
							ps = parts(v, u.rhs)
						}
						for i := 0; i < st.NumFields(); i++ {
							if i > 0 {
								b.WriteString("; ")
							}
							fmt.Fprintf(&b, "var %s %s", nm[i], types.TypeString(st.Field(i).Type(), qual))
							if ps != nil {
								fmt.Fprintf(&b, " = %s", ps[i])
							}
							fmt.Fprintf(&b, "; _ = %s", nm[i])
						}
						edits[file] = append(edits[file], textEdit{off(u.node.Pos()), off(u.node.End()), b.String()})
						stmtRanges = append(stmtRanges, rng{off(u.node.Pos()), off(u.node.End())})
					case "assign":
						ps := parts(v, u.rhs)
						op := "="
						tail := ""
						if u.tok == token.DEFINE {
							op = ":="
							for _, n := range nm {
								tail += "; _ = " + n
							}
						}
						edits[file] = append(edits[file], textEdit{off(u.node.Pos()), off(u.node.End()), strings.Join(nm, ", ") + " " + op + " " + strings.Join(ps, ", ") + tail})
						stmtRanges = append(stmtRanges, rng{off(u.node.Pos()), off(u.node.End())})
					case "discard":
						edits[file] = append(edits[file], textEdit{off(u.node.Pos()), off(u.node.End()), "_ = " + nm[0]})
					}
				}
				done = append(done, fmt.Sprintf("%s.%s", fd.Name.Name, v.Name()))
			}
			for sel, r := range fieldRepl {
				inside := false
				for _, rg := range stmtRanges {
					if off(sel.Pos()) >= rg.a && off(sel.End()) <= rg.b {
						inside = true
					}
				}
				if !inside {
					file := fileOf(sel.Pos())
					edits[file] = append(edits[file], textEdit{off(sel.Pos()), off(sel.End()), r})
				}
			}
		}
	}
	if len(done) == 0 {
		return nil, nil
	}
	out := map[string][]byte{}
	for f, es := range edits {
		sort.Slice(es, func(i, j int) bool { return es[i].start < es[j].start })
		for i := 1; i < len(es); i++ {
			if es[i].start < es[i-1].end {
				if os.Getenv("FCHECK_DEBUG") != "" {
					fmt.Println("scalar replacement: overlapping edits in", f)
				}
				return nil, nil
			}
		}
		out[f] = applyEdits(read(f), es)
	}
	sort.Strings(done)
	return out, done
}
