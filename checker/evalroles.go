package main

import (
	"go/constant"
	"go/types"
	"sort"
	"strings"

	"golang.org/x/tools/go/ssa"
)

// TSArm is one arm of a type switch lowered to a chain of `typeassert,ok`.
type TSArm struct {
	Type  types.Type
	TA    *ssa.TypeAssert
	Val   ssa.Value // extract #0
	Block *ssa.BasicBlock
	Next  *ssa.BasicBlock
}

// typeSwitchArms recovers the arms of a type switch on value x in f.
func typeSwitchArms(f *ssa.Function, x ssa.Value) (arms []TSArm, deflt *ssa.BasicBlock) {
	instrs(f, func(b *ssa.BasicBlock, i int, in ssa.Instruction) {
		ta, ok := in.(*ssa.TypeAssert)
		if !ok || !ta.CommaOk || ta.X != x {
			return
		}
		var val, okv ssa.Value
		for _, r := range *ta.Referrers() {
			if e, ok := r.(*ssa.Extract); ok {
				if e.Index == 0 {
					val = e
				} else {
					okv = e
				}
			}
		}
		if okv == nil {
			return
		}
		iff, ok := b.Instrs[len(b.Instrs)-1].(*ssa.If)
		if !ok || iff.Cond != okv {
			return
		}
		arms = append(arms, TSArm{Type: ta.AssertedType, TA: ta, Val: val, Block: b.Succs[0], Next: b.Succs[1]})
	})
	sort.Slice(arms, func(i, j int) bool { return arms[i].TA.Block().Index < arms[j].TA.Block().Index })
	if len(arms) > 0 {
		deflt = arms[len(arms)-1].Next
		// `case nil` arms are comparisons, not type asserts: skip over them is left to callers
	}
	return
}

// armBlocks: blocks reachable from arm.Block without passing `stop` blocks.
func armRegion(start *ssa.BasicBlock, stop map[*ssa.BasicBlock]bool) map[*ssa.BasicBlock]bool {
	reg := map[*ssa.BasicBlock]bool{}
	var walk func(b *ssa.BasicBlock)
	walk = func(b *ssa.BasicBlock) {
		if reg[b] || stop[b] {
			return
		}
		reg[b] = true
		for _, s := range b.Succs {
			walk(s)
		}
	}
	walk(start)
	return reg
}

type Dispatcher struct {
	Fn          *ssa.Function
	Param       *ssa.Parameter
	Arms        []TSArm
	Default     *ssa.BasicBlock
	Handlers    map[string]*ssa.Function // node type name -> handler
	HandlerCall map[string]*ssa.Call
	Inline      map[string]TSArm // node types whose arm does its work in the dispatcher itself
}

// findDispatcher: a function reachable from roots with a type switch over at
// least 5 node types on one of its parameters.
func (c *Ctx) findDispatcher(key string, roots ...*ssa.Function) *Dispatcher {
	rr := c.ReachFrom(key, roots...)
	var best *Dispatcher
	for _, f := range rr.Order {
		for _, p := range f.Params {
			if _, ok := p.Type().Underlying().(*types.Interface); !ok {
				continue
			}
			arms, d := typeSwitchArms(f, p)
			n := 0
			for _, a := range arms {
				if nt := namedOf(a.Type); nt != nil && c.isNodeTypeName(nt.Obj().Name()) {
					n++
				}
			}
			if n >= 5 && (best == nil || n > len(best.Arms)) {
				best = &Dispatcher{Fn: f, Param: p, Arms: arms, Default: d, Handlers: map[string]*ssa.Function{}, HandlerCall: map[string]*ssa.Call{}, Inline: map[string]TSArm{}}
			}
		}
	}
	if best == nil {
		return nil
	}
	stop := map[*ssa.BasicBlock]bool{}
	for _, a := range best.Arms {
		stop[a.TA.Block()] = true
	}
	for _, a := range best.Arms {
		nt := namedOf(a.Type)
		if nt == nil {
			continue
		}
		// the handler: first module call in the arm block taking the asserted value
		for _, in := range a.Block.Instrs {
			call, ok := in.(*ssa.Call)
			if !ok {
				continue
			}
			cal := calleeOf(call)
			if cal == nil || !c.inModule(cal) {
				continue
			}
			// a handler is a sibling of the dispatcher: a method of the same receiver type (a plain helper that takes
			// the node, such as the dotted-name collector, is part of an arm written out in the dispatcher)
			if rt := recvType(best.Fn); rt != nil {
				if ht := recvType(cal); ht == nil || typeName(ht) != typeName(rt) {
					continue
				}
			}
			uses := false
			for _, arg := range call.Call.Args {
				if arg == a.Val {
					uses = true
				}
				if mi, ok := arg.(*ssa.MakeInterface); ok && mi.X == a.Val {
					uses = true
				}
				if ci, ok := arg.(*ssa.ChangeInterface); ok && ci.X == a.Val {
					uses = true
				}
			}
			if uses {
				best.Handlers[nt.Obj().Name()] = cal
				best.HandlerCall[nt.Obj().Name()] = call
				break
			}
		}
		if best.Handlers[nt.Obj().Name()] == nil {
			best.Inline[nt.Obj().Name()] = a
		}
	}
	return best
}

var evalDispCache = map[*Ctx]*Dispatcher{}

func (c *Ctx) EvalDispatcher() *Dispatcher {
	if d, ok := evalDispCache[c]; ok {
		return d
	}
	d := c.findDispatcher("eval", c.method("Runner", "Resolve"))
	evalDispCache[c] = d
	return d
}

var refDispCache = map[*Ctx]*Dispatcher{}

func (c *Ctx) RefDispatcher() *Dispatcher {
	if d, ok := refDispCache[c]; ok {
		return d
	}
	d := c.findDispatcher("ref", c.fn("ResolveReferenceFields"))
	refDispCache[c] = d
	return d
}

// OpArm: what a token-dispatching handler does for one token.
type OpArm struct {
	Present     bool          // some block is reachable for this token that is not reachable for a non-operator token
	Handler     *ssa.Function // first module callee in the token-specific blocks (nil when inlined or absent)
	Call        *ssa.Call
	Pos         string
	Fallthrough string
	Fold        *FoldResult
}

// tokenDispatch folds handler h (whose node argument carries a SyntaxKind
// field) for every token and reports per-token arms. control is a token that
// is certainly not dispatched (SK_Unknown).
func (c *Ctx) tokenDispatch(h *ssa.Function) map[int64]OpArm {
	out := map[int64]OpArm{}
	args := make([]LV, len(h.Params))
	for i := range args {
		args[i] = bottom
	}
	control := c.nodeTokenFolder(c.SK("SK_Unknown")).Fold(h, args)
	disp := c.EvalDispatcher()
	for _, k := range c.AllKinds() {
		r := c.nodeTokenFolder(k).Fold(h, args)
		arm := OpArm{Pos: c.P.Pos(h.Pos()), Fold: r}
		var specific []*ssa.BasicBlock
		for _, b := range h.Blocks {
			if r.Reach[b] && !control.Reach[b] {
				specific = append(specific, b)
			}
		}
		arm.Present = len(specific) > 0
		// the handler is the call whose results the arm returns; a call that only computes an argument of it (the
		// truthiness of the left operand handed to a shared selection helper) comes first in the block but is not it
		returned := func(call *ssa.Call) bool {
			for _, ref := range *call.Referrers() {
				switch x := ref.(type) {
				case *ssa.Return:
					return true
				case *ssa.Extract:
					for _, r2 := range *x.Referrers() {
						if _, isR := r2.(*ssa.Return); isR {
							return true
						}
					}
				}
			}
			return false
		}
		var firstCal *ssa.Function
		var firstCall *ssa.Call
		for _, b := range specific {
			if arm.Handler != nil {
				break
			}
			for _, in := range b.Instrs {
				call, ok := in.(*ssa.Call)
				if !ok {
					continue
				}
				cal := calleeOf(call)
				if cal == nil && !call.Call.IsInvoke() {
					// table-driven dispatch: the callee is a function value whose identity folded for this token
					if lv := r.Val(call.Call.Value); lv.K == lRef {
						cal = fnValue(lv.V)
					}
				}
				if cal == nil || !c.inModule(cal) || (disp != nil && cal == disp.Fn) {
					continue
				}
				if firstCal == nil {
					firstCal, firstCall = cal, call
				}
				if !returned(call) {
					continue
				}
				arm.Handler = cal
				arm.Call = call
				arm.Pos = c.P.InstrPos(call)
				break
			}
		}
		if arm.Handler == nil && firstCal != nil {
			arm.Handler, arm.Call, arm.Pos = firstCal, firstCall, c.P.InstrPos(firstCall)
		}
		if !arm.Present {
			// describe where the control flow ends up
			for _, ret := range control.Returns {
				s := "return "
				for i, rv := range ret.Results {
					if i > 0 {
						s += ", "
					}
					s += shortVal(rv)
				}
				arm.Fallthrough = s + " at " + c.P.InstrPos(ret)
			}
		}
		out[k] = arm
	}
	return out
}

func shortVal(v ssa.Value) string {
	if k, ok := v.(*ssa.Const); ok {
		if k.Value == nil {
			return "nil"
		}
		return k.Value.ExactString()
	}
	return v.Name()
}

func (c *Ctx) binaryDispatch() (map[int64]OpArm, string) {
	d := c.EvalDispatcher()
	if d == nil {
		return nil, "evaluator dispatcher not found"
	}
	h := d.Handlers["BinaryExpression"]
	if h == nil {
		return nil, "no handler for *BinaryExpression in the evaluator dispatcher"
	}
	return c.tokenDispatch(h), ""
}

func (c *Ctx) prefixDispatch() (map[int64]OpArm, string) {
	d := c.EvalDispatcher()
	if d == nil {
		return nil, "evaluator dispatcher not found"
	}
	h := d.Handlers["PrefixUnaryExpression"]
	if h == nil {
		return nil, "no handler for *PrefixUnaryExpression in the evaluator dispatcher"
	}
	return c.tokenDispatch(h), ""
}

func (c *Ctx) literalDispatch() (map[int64]OpArm, string) {
	d := c.EvalDispatcher()
	if d == nil {
		return nil, "evaluator dispatcher not found"
	}
	h := d.Handlers["LiteralExpression"]
	if h == nil {
		return nil, "no handler for *LiteralExpression in the evaluator dispatcher"
	}
	return c.tokenDispatch(h), ""
}

// producibleTokens: the tokens the scanner can make current.
func (c *Ctx) producibleTokens() map[int64]bool {
	out := map[int64]bool{}
	scan := c.scanFn()
	if scan == nil {
		return out
	}
	rr := c.ReachFrom("scan", scan)
	fo := &Folder{P: c.P, MaxDepth: 3}
	for _, f := range rr.Order {
		if typeName(recvType(f)) != "Scanner" {
			continue
		}
		instrs(f, func(b *ssa.BasicBlock, i int, in ssa.Instruction) {
			st, ok := in.(*ssa.Store)
			if !ok {
				return
			}
			fa, ok := st.Addr.(*ssa.FieldAddr)
			if !ok || !isScannerField(fa, "token") {
				return
			}
			// a token taken from a constant table (map literal indexed by the character)
			var lk *ssa.Lookup
			switch x := st.Val.(type) {
			case *ssa.Lookup:
				lk = x
			case *ssa.Extract:
				lk, _ = x.Tuple.(*ssa.Lookup)
			}
			if lk != nil {
				if tab, ok := fo.constTable(&FoldResult{Fn: f, Vals: map[ssa.Value]LV{}}, lk.X); ok {
					for _, lv := range tab {
						if lv.K == lConst && lv.C.Kind() == constant.Int {
							n, _ := constant.Int64Val(lv.C)
							out[n] = true
						}
					}
				}
			}
			for _, rt := range plainOrigins.Roots(st.Val) {
				switch rt.Kind {
				case "param":
					// a token kind handed to an arm helper: the constants passed at its call sites
					if par, ok := rt.V.(*ssa.Parameter); ok && len(rt.Path) == 0 {
						pi := paramIndex(par)
						for _, g := range rr.Order {
							for _, cs := range callsTo(g, f) {
								if pi < len(cs.Call.Args) {
									if k, ok := constIntArg(cs.Call.Args[pi]); ok {
										out[k] = true
									}
								}
							}
						}
					}
				case "const":
					if k, ok := constIntArg(rt.V); ok {
						out[k] = true
					}
				case "call":
					if rt.Fn != nil && c.inModule(rt.Fn) {
						args := make([]LV, len(rt.Fn.Params))
						for i := range args {
							args[i] = bottom
						}
						r := fo.Fold(rt.Fn, args)
						if v, ok := r.ReturnConst(rt.Idx); ok && v.Kind() == constant.Int {
							n, _ := constant.Int64Val(v)
							out[n] = true
						} else {
							// keyword lookup: every keyword
							for _, k := range c.AllKinds() {
								if kw, ok := c.foldKindMethod("IsKeyword", k); ok && kw {
									out[k] = true
								}
							}
						}
					}
				}
			}
		})
	}
	return out
}

func recvType(f *ssa.Function) types.Type {
	if f.Signature.Recv() != nil {
		return f.Signature.Recv().Type()
	}
	// instantiated generic methods may lose the receiver in their signature
	if len(f.Params) > 0 && strings.HasPrefix(f.String(), "(") {
		return f.Params[0].Type()
	}
	return types.Typ[types.Invalid]
}
