package main

import (
	"go/ast"
	"go/token"
	"go/types"
	"strings"

	"golang.org/x/tools/go/ssa"
)

// Unexported names are free to change. The rules of this checker were written with the names of the pinned tree
// ("Scanner.pos", "Runner.this", "newDecimalBig", "keywords" ...); this file finds the same things by what they are
// - their type, which exported function touches them, what is stored into them - and maps the name found in the tree
// to the name the rules use. Only exported identifiers (the package's API: Scanner, Runner, Scan, SetThis,
// KeywordFromString, IsIdentifierStart, LookupInUnicodeMap ...) are taken as given. When a role cannot be found the
// historical name is kept, so a lookup by that name fails loudly as before.

// fieldCanon: struct field object -> the name the rules use for it.
var fieldCanon = map[*types.Var]string{}

func canonFieldName(v *types.Var) string {
	if c, ok := fieldCanon[v]; ok {
		return c
	}
	return v.Name()
}

// alias maps a historical function / global / type name to the name in this tree.
func (p *Prog) alias(name string) string {
	if a, ok := p.Alias[name]; ok {
		return a
	}
	return name
}

func structOf(p *Prog, name string) (*types.Named, *types.Struct) {
	obj := p.Types.Scope().Lookup(name)
	tn, ok := obj.(*types.TypeName)
	if !ok {
		return nil, nil
	}
	nt, ok := tn.Type().(*types.Named)
	if !ok {
		return nil, nil
	}
	st, ok := nt.Underlying().(*types.Struct)
	if !ok {
		return nil, nil
	}
	return nt, st
}

func uniqueField(st *types.Struct, pred func(v *types.Var) bool) *types.Var {
	var hit *types.Var
	n := 0
	for i := 0; i < st.NumFields(); i++ {
		if pred(st.Field(i)) {
			hit = st.Field(i)
			n++
		}
	}
	if n == 1 {
		return hit
	}
	return nil
}

func fieldVarOf(fa *ssa.FieldAddr) *types.Var {
	st, ok := deref(fa.X.Type()).Underlying().(*types.Struct)
	if !ok {
		return nil
	}
	return st.Field(fa.Field)
}

func (p *Prog) discoverNames() {
	p.Alias = map[string]string{}
	var curStruct *types.Struct
	set := func(v *types.Var, canon string) {
		if v == nil || v.Name() == canon {
			return
		}
		if curStruct != nil {
			for i := 0; i < curStruct.NumFields(); i++ {
				if curStruct.Field(i).Name() == canon {
					return // the historical name is still in use: no renaming happened for this role
				}
			}
		}
		fieldCanon[v] = canon
	}
	isNamed := func(t types.Type, name string) bool {
		nt, ok := t.(*types.Named)
		return ok && nt.Obj().Name() == name && nt.Obj().Pkg() == p.Types
	}
	// ---- Scanner ----
	if _, st0 := structOf(p, "Scanner"); st0 != nil {
		// the scanner's fields, those of a struct embedded in it included (`type Scanner struct { ..; scanState }`)
		var flat []*types.Var
		for i := 0; i < st0.NumFields(); i++ {
			f := st0.Field(i)
			if est, isS := f.Type().Underlying().(*types.Struct); isS && f.Embedded() {
				for j := 0; j < est.NumFields(); j++ {
					flat = append(flat, est.Field(j))
				}
				continue
			}
			flat = append(flat, f)
		}
		st := types.NewStruct(flat, nil)
		curStruct = st
		set(uniqueField(st, func(v *types.Var) bool { return v.Type().String() == "[]byte" }), "text")
		set(uniqueField(st, func(v *types.Var) bool { return isNamed(v.Type(), "SyntaxKind") }), "token")
		set(uniqueField(st, func(v *types.Var) bool { return isNamed(v.Type(), "TokenFlags") }), "tokenFlags")
		set(uniqueField(st, func(v *types.Var) bool {
			b, ok := v.Type().Underlying().(*types.Basic)
			return ok && b.Kind() == types.String
		}), "tokenValue")
		set(uniqueField(st, func(v *types.Var) bool {
			_, ok := v.Type().Underlying().(*types.Signature)
			return ok
		}), "onError")
		// the int fields by what Scan does with them
		if scan := p.Method("Scanner", "Scan"); scan != nil && len(scan.Blocks) > 0 {
			isScannerInt := func(v ssa.Value) *types.Var {
				fa, ok := v.(*ssa.FieldAddr)
				if !ok {
					return nil
				}
				if typeName(fa.X.Type()) != "Scanner" {
					outer, isFA := fa.X.(*ssa.FieldAddr)
					if !isFA || typeName(outer.X.Type()) != "Scanner" {
						return nil
					}
					if ov := fieldVarOf(outer); ov == nil || !ov.Embedded() {
						return nil
					}
				}
				fv := fieldVarOf(fa)
				if fv == nil {
					return nil
				}
				if b, ok := fv.Type().Underlying().(*types.Basic); !ok || b.Kind() != types.Int {
					return nil
				}
				return fv
			}
			var pos, end, startPos, tokenPos *types.Var
			// pos: low bound of the slice handed to the rune decode
			instrs(scan, func(b *ssa.BasicBlock, i int, in ssa.Instruction) {
				call, ok := in.(*ssa.Call)
				if !ok || pos != nil {
					return
				}
				if cal := calleeOf(call); cal == nil || cal.String() != "unicode/utf8.DecodeRune" {
					return
				}
				if sl, ok := call.Call.Args[0].(*ssa.Slice); ok && sl.Low != nil {
					if u, ok := sl.Low.(*ssa.UnOp); ok {
						pos = isScannerInt(u.X)
					}
				}
			})
			if pos != nil {
				loadOf := func(v ssa.Value) *types.Var {
					u, ok := v.(*ssa.UnOp)
					if !ok || u.Op != token.MUL {
						return nil
					}
					return isScannerInt(u.X)
				}
				instrs(scan, func(b *ssa.BasicBlock, i int, in ssa.Instruction) {
					switch x := in.(type) {
					case *ssa.BinOp:
						l, r := loadOf(x.X), loadOf(x.Y)
						if l == pos && r != nil && r != pos && end == nil {
							end = r
						}
						if r == pos && l != nil && l != pos && end == nil {
							end = l
						}
					case *ssa.Store:
						fv := isScannerInt(x.Addr)
						if fv == nil || fv == pos || loadOf(x.Val) != pos {
							return
						}
						if b == scan.Blocks[0] {
							if startPos == nil {
								startPos = fv
							}
						} else if tokenPos == nil {
							tokenPos = fv
						}
					}
				})
			}
			set(pos, "pos")
			set(end, "end")
			set(startPos, "startPos")
			set(tokenPos, "tokenPos")
		}
	}
	// ---- Runner ----
	if _, st := structOf(p, "Runner"); st != nil {
		curStruct = st
		var this *types.Var
		if f := p.Method("Runner", "SetThis"); f != nil {
			instrs(f, func(b *ssa.BasicBlock, i int, in ssa.Instruction) {
				if stt, ok := in.(*ssa.Store); ok {
					if fa, ok := stt.Addr.(*ssa.FieldAddr); ok && typeName(fa.X.Type()) == "Runner" {
						if fv := fieldVarOf(fa); fv != nil {
							if _, isMap := fv.Type().Underlying().(*types.Map); isMap {
								this = fv
							}
						}
					}
				}
			})
		}
		set(this, "this")
		if this != nil {
			set(uniqueField(st, func(v *types.Var) bool {
				_, isMap := v.Type().Underlying().(*types.Map)
				return isMap && v != this
			}), "value")
		}
	}
	// ---- Parser ----
	if _, st := structOf(p, "Parser"); st != nil {
		curStruct = st
		set(uniqueField(st, func(v *types.Var) bool { return v.Type().String() == "[]*"+p.Root.PkgPath+".Diagnostic" }), "parseDiagnostics")
	}
	// ---- the field collector of the referenced-field analysis ----
	var collector *types.Named
	if f := p.Func("ResolveReferenceFields"); f != nil {
		instrs(f, func(b *ssa.BasicBlock, i int, in ssa.Instruction) {
			if a, ok := in.(*ssa.Alloc); ok && collector == nil {
				if nt, ok := deref(a.Type()).(*types.Named); ok && nt.Obj().Pkg() == p.Types {
					if _, isSt := nt.Underlying().(*types.Struct); isSt {
						collector = nt
					}
				}
			}
		})
	}
	if collector != nil {
		if collector.Obj().Name() != "referenceResovle" {
			p.Alias["referenceResovle"] = collector.Obj().Name()
		}
		st := collector.Underlying().(*types.Struct)
		curStruct = st
		set(uniqueField(st, func(v *types.Var) bool { return v.Type().String() == "[]string" }), "fields")
	}
	// ---- functions ----
	exists := func(name string) bool {
		if _, ok := p.Pkg.Members[name]; ok {
			return true
		}
		for _, f := range p.ModFuncs {
			if f.Name() == name && f.Parent() == nil {
				return true
			}
		}
		return false
	}
	fnAlias := func(canon string, f *ssa.Function) {
		if f != nil && f.Name() != canon && !exists(canon) {
			p.Alias[canon] = f.Name()
		}
	}
	var newDec, convNum, identTok, errAt *ssa.Function
	nNewDec := 0
	for _, f := range p.ModFuncs {
		if f.Parent() != nil || len(f.Blocks) == 0 || f.Synthetic != "" {
			continue
		}
		sig := f.Signature
		// newDecimalBig: () *decimal.Big through decimal.WithContext
		if sig.Recv() == nil && sig.Params().Len() == 0 && sig.Results().Len() == 1 && strings.HasSuffix(sig.Results().At(0).Type().String(), "decimal.Big") {
			uses := false
			instrs(f, func(b *ssa.BasicBlock, i int, in ssa.Instruction) {
				if call, ok := in.(*ssa.Call); ok {
					if cal := calleeOf(call); cal != nil && strings.HasSuffix(cal.String(), "decimal.WithContext") {
						uses = true
					}
				}
			})
			if uses {
				newDec = f
				nNewDec++
			}
		}
		// convToBasicNumber: (interface{}, reflect.Type) (interface{}, error) calling (*Big).Float64
		if sig.Recv() == nil && sig.Params().Len() == 2 && sig.Params().At(1).Type().String() == "reflect.Type" && sig.Results().Len() == 2 {
			instrs(f, func(b *ssa.BasicBlock, i int, in ssa.Instruction) {
				if call, ok := in.(*ssa.Call); ok {
					if cal := calleeOf(call); cal != nil && strings.HasSuffix(cal.String(), "decimal.Big).Float64") {
						convNum = f
					}
				}
			})
		}
		if sig.Recv() != nil && typeName(sig.Recv().Type()) == "Scanner" {
			instrs(f, func(b *ssa.BasicBlock, i int, in ssa.Instruction) {
				if call, ok := in.(*ssa.Call); ok {
					if cal := calleeOf(call); cal != nil && cal.Name() == "KeywordFromString" && p.InModule(cal) {
						identTok = f
					}
				}
			})
		}
		if sig.Recv() != nil && typeName(sig.Recv().Type()) == "Parser" {
			instrs(f, func(b *ssa.BasicBlock, i int, in ssa.Instruction) {
				stt, ok := in.(*ssa.Store)
				if !ok {
					return
				}
				fa, ok := stt.Addr.(*ssa.FieldAddr)
				if !ok || typeName(fa.X.Type()) != "Parser" || fieldName(fa) != "parseDiagnostics" {
					return
				}
				if call, ok := stt.Val.(*ssa.Call); ok && isBuiltinCall(call, "append") {
					errAt = f
				}
			})
		}
	}
	if nNewDec == 1 {
		fnAlias("newDecimalBig", newDec)
	}
	fnAlias("convToBasicNumber", convNum)
	fnAlias("getIdentifierToken", identTok)
	fnAlias("errorAtPosition", errAt)
	// ---- globals ----
	globalAlias := func(canon string, g *ssa.Global) {
		if g != nil && g.Name() != canon && !exists(canon) {
			p.Alias[canon] = g.Name()
		}
	}
	globalsReadBy := func(f *ssa.Function, pred func(g *ssa.Global) bool) *ssa.Global {
		var hit *ssa.Global
		if f == nil {
			return nil
		}
		for _, g := range p.Reach([]*ssa.Function{f}, p.InModule, nil).Order {
			instrs(g, func(b *ssa.BasicBlock, i int, in ssa.Instruction) {
				var ops []*ssa.Value
				ops = in.Operands(ops)
				for _, op := range ops {
					if gl, ok := (*op).(*ssa.Global); ok && gl.Pkg == p.Pkg && pred(gl) && hit == nil {
						hit = gl
					}
				}
			})
		}
		return hit
	}
	globalAlias("keywords", globalsReadBy(p.Func("KeywordFromString"), func(g *ssa.Global) bool {
		_, ok := deref(g.Type()).Underlying().(*types.Map)
		return ok
	}))
	isRuneSlice := func(g *ssa.Global) bool {
		s := deref(g.Type()).String()
		return s == "[]rune" || s == "[]int32"
	}
	// the two identifier range tables: told apart by size (every start character is also a part character, and
	// digits, combining marks and connectors are part characters only), never by which predicate reads which
	if _, ok := p.Pkg.Members["unicodeES5IdentifierStart"]; !ok {
		var tabs []*ssa.Global
		for _, m := range p.Pkg.Members {
			if g, ok := m.(*ssa.Global); ok && isRuneSlice(g) {
				tabs = append(tabs, g)
			}
		}
		if len(tabs) == 2 {
			n0, n1 := p.sliceLiteralLen(tabs[0].Name()), p.sliceLiteralLen(tabs[1].Name())
			if n0 > 0 && n1 > 0 && n0 != n1 {
				small, big := tabs[0], tabs[1]
				if n0 > n1 {
					small, big = tabs[1], tabs[0]
				}
				globalAlias("unicodeES5IdentifierStart", small)
				globalAlias("unicodeES5IdentifierPart", big)
			}
		}
	}
	if m := p.Method("SyntaxKind", "ToString"); m != nil {
		globalAlias("tokens", globalsReadBy(m, func(g *ssa.Global) bool {
			switch t := deref(g.Type()).Underlying().(type) {
			case *types.Array:
				return t.Elem().String() == "string"
			case *types.Slice:
				return t.Elem().String() == "string"
			}
			return false
		}))
	}
	var kinds *ssa.Global
	nk := 0
	for _, m := range p.Pkg.Members {
		if g, ok := m.(*ssa.Global); ok && deref(g.Type()).String() == "[]reflect.Kind" {
			kinds = g
			nk++
		}
	}
	if nk == 1 {
		globalAlias("basicNumberKind", kinds)
	}
}

// sliceLiteralLen: number of elements of the package-level slice literal `var name = []T{...}` (0 when not found).
func (p *Prog) sliceLiteralLen(name string) int {
	for _, file := range p.Root.Syntax {
		for _, d := range file.Decls {
			gd, ok := d.(*ast.GenDecl)
			if !ok || gd.Tok != token.VAR {
				continue
			}
			for _, sp := range gd.Specs {
				vs := sp.(*ast.ValueSpec)
				for i, n := range vs.Names {
					if n.Name == name && i < len(vs.Values) {
						if cl, ok := vs.Values[i].(*ast.CompositeLit); ok {
							return len(cl.Elts)
						}
					}
				}
			}
		}
	}
	return 0
}
