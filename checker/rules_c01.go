package main

import (
	"fmt"
	"go/constant"
	"go/token"
	"go/types"
	"sort"
	"strings"

	"golang.org/x/tools/go/ssa"
)

func init() {
	register("C01",
		"a deferred recover at the parse entry turns every panic into the returned error and nothing reachable can end the process or swallow a panic; recorded diagnostics always become an error and are copied into the result on every path; after the top-level expression every path tests the current token against end-of-input and rejects otherwise; every placeholder (zero-width) node is accompanied by a diagnostic; speculative callbacks allocate no node; every node allocation stores all its operand fields on every path and every producer of an operand never returns nil; the scanner definitely advances before returning for every first character (first-path folding of Scan and its sub-scanners over all ASCII first characters x follow-ups and non-ASCII class samples), every scanner / line-table loop advances on every cycle, the two bisection loops shrink their interval, and every parser loop consumes a token on every cycle (conditional consumers counted on their success edge; list elements start only on tokens their parser consumes). With no diagnostic recorded yet the recorder appends on every path (the first error is never de-duplicated away); every may-panic site reachable from the deferred function AFTER its recover() (formatting of the first diagnostic: line table, binary search, position lookup) is discharged by a dominating bound, a bisection invariant or a named, read-confirmed invariant. The diagnostics are copied into the source on every path through the worker, early exits included.",
		"the linear time bound and stack depth as quantities (recursion depth grows with nesting and stack exhaustion is not recoverable); of the time bound only one structural part is decided: no whole-text scan (a loop over a text parameter, such as the line-start table builder) is reached from per-token parser code unless its result is kept in a nil-tested field.",
		runC01)
}

func runC01(c *Ctx) {
	entry := c.fn("ParseSourceCode")
	if !c.need("C01.anchor", entry, "ParseSourceCode") {
		return
	}
	ro := c.needRoles("C01.roles")
	if ro == nil {
		return
	}
	c01Recover(c, entry, ro)
	c01PostRecover(c)
	c01DiagImpliesError(c, entry, ro)
	c01EOF(c, ro, "C01.eof-check")
	c01Placeholder(c, ro)
	c01Speculation(c, ro)
	c01Fields(c, ro)
	c01NeverNil(c, ro)
	c01ScanErrorBinding(c, ro)
	c01ScannerProgress(c)
	c01LoopProgress(c, entry)
	c01ParserProgress(c, ro)
	c01Linear(c, ro)
	// every name in the tree is the text of its token: identifier and keyword tokens carry text[tokenPos:pos]
	// (a keyword is a legal member name: `this.null`)
	c14Keywords(c, "C01.word-tokens-carry-their-text")
	// "the whole input was consumed": a look-ahead that does not put the read position back silently drops the
	// token it looked at (shared with C15)
	c15SpeculationAs(c, "C01.look-ahead-restores-state")
}

func c01Recover(c *Ctx, entry *ssa.Function, ro *ParserRoles) {
	info := c.recoverShape(entry)
	c.R.Check("C01.recover", "ParseSourceCode", c.P.Pos(entry.Pos()), info.OK, "the parse entry point must convert panics into the returned error: "+info.Why)
	// no other exported function reaches the parser worker
	for _, f := range c.exportedRoots() {
		if f == entry {
			continue
		}
		rr := c.P.Reach([]*ssa.Function{f}, c.inModule, nil)
		if rr.In[ro.Worker] {
			c.R.Add("C01.recover", "exported "+c.P.FuncKey(f)+" reaches the parser", c.P.Pos(f.Pos()), Violation, "the parser worker is reachable from an exported function that has no recover: "+rr.Chain(c.P, ro.Worker))
		}
	}
	// no escape
	const rule = "C01.no-escape"
	rr := ro.Reach
	for _, f := range rr.Order {
		instrs(f, func(b *ssa.BasicBlock, i int, in ssa.Instruction) {
			switch x := in.(type) {
			case *ssa.Go:
				c.R.Add(rule, "go statement in "+c.P.FuncKey(f), c.P.InstrPos(in), Violation, "a panic in a goroutine started while parsing cannot be recovered by the entry point")
			case ssa.CallInstruction:
				if isBuiltinCall(in, "recover") && f != info.Closure {
					c.R.Add(rule, "recover in "+c.P.FuncKey(f), c.P.InstrPos(in), Violation, "a second recover below the entry point can swallow a panic and let parsing continue with a half-built tree")
				}
				if cal := calleeOf(x); cal != nil {
					switch cal.String() {
					case "os.Exit", "runtime.Goexit", "log.Fatal", "log.Fatalf", "log.Fatalln", "syscall.Exit":
						c.R.Add(rule, cal.String()+" in "+c.P.FuncKey(f), c.P.InstrPos(in), Violation, "ends the process / goroutine instead of returning an error")
					}
				}
			}
		})
	}
	c.R.Add(rule, "scan", "-", OK, "")
	c.R.Analysed["parser_reachable_functions"] = len(rr.Order)
}

func c01DiagImpliesError(c *Ctx, entry *ssa.Function, ro *ParserRoles) {
	const rule = "C01.diag-implies-error"
	info := c.recoverShape(entry)
	if info.Closure == nil {
		c.R.Check(rule, "deferred-function", c.P.Pos(entry.Pos()), false, "no deferred function at the parse entry to turn diagnostics into the error")
		return
	}
	g := info.Closure
	// the test len(source.Diagnostics) > 0 with a non-nil error stored on its true edge: in the deferred function, or
	// in the entry itself after the worker has returned (the error result is then a cell of the entry)
	ok := false
	isErrCellAny := func(v ssa.Value) bool {
		switch x := v.(type) {
		case *ssa.FreeVar:
			pt, isP := x.Type().(*types.Pointer)
			return isP && pt.Elem().String() == "error"
		case *ssa.Alloc:
			pt, isP := x.Type().(*types.Pointer)
			return isP && pt.Elem().String() == "error" && x.Parent() == entry
		}
		return false
	}
	scanBoth := func(visit func(b *ssa.BasicBlock, i int, in ssa.Instruction)) {
		instrs(g, visit)
		instrs(entry, visit)
	}
	scanBoth(func(b *ssa.BasicBlock, i int, in ssa.Instruction) {
		iff, isIf := in.(*ssa.If)
		if !isIf {
			return
		}
		bo, isB := iff.Cond.(*ssa.BinOp)
		if !isB {
			return
		}
		// `if first := firstDiagnostic(source); first != nil { err = ... }`
		if hc, isHC := bo.X.(*ssa.Call); isHC && isNilConst(bo.Y) && c.firstDiagnosticHelper(calleeOf(hc)) {
			var t *ssa.BasicBlock
			switch bo.Op {
			case token.NEQ:
				t = b.Succs[0]
			case token.EQL:
				t = b.Succs[1]
			}
			if t != nil {
				for _, x := range t.Instrs {
					if st, isSt := x.(*ssa.Store); isSt && isErrCellAny(st.Addr) && !isNilConst(st.Val) {
						ok = true
					}
				}
			}
			return
		}
		lenCall, isC := bo.X.(*ssa.Call)
		if !isC || !isBuiltinCall(lenCall, "len") {
			return
		}
		isDiags := false
		for _, rt := range plainOrigins.Roots(lenCall.Call.Args[0]) {
			if len(rt.Path) > 0 && rt.Path[len(rt.Path)-1] == "Diagnostics" {
				isDiags = true
			}
		}
		z, isZ := constIntArg(bo.Y)
		if !isDiags || !isZ {
			return
		}
		var t *ssa.BasicBlock
		switch {
		case bo.Op == token.GTR && z == 0, bo.Op == token.NEQ && z == 0, bo.Op == token.GEQ && z == 1:
			t = b.Succs[0]
		case bo.Op == token.EQL && z == 0:
			t = b.Succs[1]
		}
		if t == nil {
			return
		}
		for _, x := range t.Instrs {
			if st, isSt := x.(*ssa.Store); isSt && isErrCellAny(st.Addr) && !isNilConst(st.Val) {
				ok = true
			}
		}
		// ... or the error travels through locals first: on every path from the true edge to the end of the deferred
		// function the last store into the error result holds a value known to be non-nil
		if !ok {
			k := 0
			if t == b.Succs[1] {
				k = 1
			}
			isErrCell := isErrCellAny
			ok = c.walkEdge(b, k, nil, nil, func(in ssa.Instruction, nn func(ssa.Value) int, st int) int {
				if s, isSt := in.(*ssa.Store); isSt && isErrCell(s.Addr) {
					if nn(s.Val) == nnNonNil {
						return 1
					}
					return 0
				}
				return st
			}, func(ret *ssa.Return, nn func(ssa.Value) int, st int) bool { return st == 1 })
		}
	})
	c.R.Check(rule, "diagnostics-become-error", c.P.Pos(g.Pos()), ok, "when the returned source carries diagnostics the deferred function must store a non-nil error: a tree must never be returned with a nil error after a diagnostic was recorded")
	// the test must not be skipped on any path of the deferred function other than source == nil
	// worker: the diagnostics list is copied into the source on every path after the last parse call
	var exprCall ssa.Instruction
	instrs(ro.Worker, func(b *ssa.BasicBlock, i int, in ssa.Instruction) {
		if call, isC := in.(*ssa.Call); isC && calleeOf(call) != nil && c.canon(calleeOf(call)) == ro.Expr {
			exprCall = in
		}
	})
	copies := func(in ssa.Instruction) bool {
		st, isSt := in.(*ssa.Store)
		if !isSt {
			return false
		}
		fa, isFA := st.Addr.(*ssa.FieldAddr)
		if !isFA || typeName(fa.X.Type()) != "SourceCode" || fieldName(fa) != "Diagnostics" {
			return false
		}
		for _, rt := range plainOrigins.Roots(st.Val) {
			if len(rt.Path) >= 1 && rt.Path[len(rt.Path)-1] == "parseDiagnostics" {
				return true
			}
		}
		return false
	}
	if exprCall == nil {
		c.R.Undecided(rule, "worker-copies-diagnostics", c.P.Pos(ro.Worker.Pos()), "top-level parse call not found")
	} else {
		// from the worker's entry, not only from the top-level parse: priming the scanner can already record a
		// diagnostic, and so can an early exit for a special input (an "empty formula" message)
		missing := pathExists(ro.Worker, nil, isReturn, copies, nil)
		c.R.Check(rule, "worker-copies-diagnostics", c.P.InstrPos(exprCall), !missing, "there is a path through the worker to its return on which the recorded diagnostics are not copied into the source: the entry point would report success")
	}
	// the worker returns the source it filled, and the entry returns the worker's result
	retOK := false
	instrs(entry, func(b *ssa.BasicBlock, i int, in ssa.Instruction) {
		if st, isSt := in.(*ssa.Store); isSt {
			for _, rt := range plainOrigins.Roots(st.Val) {
				if rt.Kind == "call" && rt.Fn == ro.Worker {
					retOK = true
				}
			}
		}
	})
	c.R.Check(rule, "entry-returns-worker-source", c.P.Pos(entry.Pos()), retOK, "the entry must return the source produced by the worker (the deferred function inspects exactly that source)")
	// the diagnostic recorder appends to the parser's list
	sink := c.diagSink()
	appends := false
	if sink != nil {
		instrs(sink, func(b *ssa.BasicBlock, i int, in ssa.Instruction) {
			if st, isSt := in.(*ssa.Store); isSt {
				if fa, isFA := st.Addr.(*ssa.FieldAddr); isFA && fieldName(fa) == "parseDiagnostics" {
					if call, isC := st.Val.(*ssa.Call); isC && isBuiltinCall(call, "append") {
						appends = true
					}
				}
			}
		})
	}
	c.R.Check(rule, "recorder-appends", "-", appends, "the diagnostic recorder must append to the parser's diagnostic list")
	if sink != nil && appends && len(sink.Blocks) > 0 {
		// the first diagnostic is never suppressed: with the diagnostic list empty every path appends.
		// (De-duplication may only compare against a diagnostic that exists.)
		emptyList := func(v ssa.Value) (constant.Value, bool) {
			call, ok := v.(*ssa.Call)
			if !ok || !isBuiltinCall(call, "len") || len(call.Call.Args) != 1 {
				return nil, false
			}
			for _, rt := range plainOrigins.Roots(call.Call.Args[0]) {
				if len(rt.Path) >= 1 && rt.Path[len(rt.Path)-1] == "parseDiagnostics" {
					return constant.MakeInt64(0), true
				}
			}
			return nil, false
		}
		r := c.foldWith(sink, 0, emptyList)
		isAppend := func(in ssa.Instruction) bool {
			st, ok := in.(*ssa.Store)
			if !ok {
				return false
			}
			fa, isFA := st.Addr.(*ssa.FieldAddr)
			return isFA && fieldName(fa) == "parseDiagnostics"
		}
		skip := pathExistsIn(r, nil, isReturn, isAppend)
		if skip && c.sentinelSuppression(sink, emptyList, isAppend) {
			// duplicates are recognised by a "position of the last diagnostic" field that starts out negative and
			// follows the list (see sentinelSuppression): with the list empty it equals no position
			skip = false
		}
		c.R.Check(rule, "first-diagnostic-recorded", c.P.Pos(sink.Pos()), !skip, "with no diagnostic recorded yet there is a path through the recorder that does not append: the first error of a parse can be dropped (e.g. suppressed by comparing with a zero-valued 'last position')")
	}
	c.R.Floor(rule, 4)
}

// sentinelSuppression: the recorder drops a diagnostic only when its start equals a field F of the parser, and F keeps
// to the invariant "F is its negative initial value, or the start of a diagnostic that is in the list":
//   - F is initialised with a negative constant where the parser is built;
//   - the recorder stores its start parameter into F only after it has appended;
//   - every other store to F puts back a value read from F earlier in the same function, and every store that
//     shortens the diagnostic list has such a restore in its block, the saved value read where the saved length is.
//
// Offsets into the text are not negative, so with an empty list (F negative) nothing is dropped.
func (c *Ctx) sentinelSuppression(sink *ssa.Function, emptyList Pin, isAppend func(ssa.Instruction) bool) bool {
	if len(sink.Params) < 2 {
		return false
	}
	parserT := namedOf(sink.Params[0].Type())
	if parserT == nil {
		return false
	}
	isF := func(v ssa.Value, name string) (*ssa.FieldAddr, bool) {
		fa, ok := v.(*ssa.FieldAddr)
		if !ok || namedOf(fa.X.Type()) != parserT || (name != "" && fieldName(fa) != name) {
			return nil, false
		}
		return fa, true
	}
	// the comparison start == p.F
	var cmp *ssa.BinOp
	field := ""
	var start *ssa.Parameter
	n := 0
	instrs(sink, func(b *ssa.BasicBlock, i int, in ssa.Instruction) {
		bo, ok := in.(*ssa.BinOp)
		if !ok || (bo.Op != token.EQL && bo.Op != token.NEQ) {
			return
		}
		for _, pr := range [][2]ssa.Value{{bo.X, bo.Y}, {bo.Y, bo.X}} {
			p, isP := pr[0].(*ssa.Parameter)
			u, isU := pr[1].(*ssa.UnOp)
			if !isP || !isU || u.Op != token.MUL || !isIntType(p.Type()) {
				continue
			}
			if fa, ok := isF(u.X, ""); ok && fa.X == ssa.Value(sink.Params[0]) {
				cmp, field, start = bo, fieldName(fa), p
				n++
			}
		}
	})
	if n != 1 || field == "parseDiagnostics" {
		return false
	}
	// without that suppression every path appends
	differ := cmp.Op == token.NEQ
	r := c.foldWith(sink, 0, emptyList, pinValue(cmp, constant.MakeBool(differ)))
	if pathExistsIn(r, nil, isReturn, isAppend) {
		return false
	}
	ok := true
	inits := 0
	for _, f := range c.P.ModFuncs {
		instrs(f, func(b *ssa.BasicBlock, i int, in ssa.Instruction) {
			st, isSt := in.(*ssa.Store)
			if !isSt || !ok {
				return
			}
			if fa, isFld := isF(st.Addr, field); isFld {
				switch {
				case f == sink:
					// start, after the append
					after := false
					instrs(sink, func(_ *ssa.BasicBlock, _ int, x ssa.Instruction) {
						if isAppend(x) && instrDominates(x, in) {
							after = true
						}
					})
					if st.Val != ssa.Value(start) || !after {
						ok = false
					}
				default:
					if k, isK := constIntArg(st.Val); isK {
						if _, fresh := fa.X.(*ssa.Alloc); fresh && k < 0 {
							inits++
							return
						}
						ok = false
						return
					}
					// a restore of a value read from the field in this function
					u, isU := st.Val.(*ssa.UnOp)
					if !isU || u.Op != token.MUL {
						ok = false
						return
					}
					if f2, isFld2 := isF(u.X, field); !isFld2 || f2.X != fa.X {
						ok = false
					}
				}
				return
			}
			// the list shortened (or replaced) outside the recorder
			if fa, isFld := isF(st.Addr, "parseDiagnostics"); isFld && f != sink {
				if _, fresh := fa.X.(*ssa.Alloc); fresh {
					return
				}
				sl, isSl := st.Val.(*ssa.Slice)
				if !isSl || sl.High == nil {
					ok = false
					return
				}
				// the saved length: len(p.parseDiagnostics) read in some block B; F must be read in B too, and put back here
				lc, isLen := sl.High.(*ssa.Call)
				if !isLen || !isBuiltinCall(lc, "len") {
					ok = false
					return
				}
				restored := false
				for _, x := range b.Instrs {
					s2, isS2 := x.(*ssa.Store)
					if !isS2 {
						continue
					}
					if _, isFld2 := isF(s2.Addr, field); !isFld2 {
						continue
					}
					if u, isU := s2.Val.(*ssa.UnOp); isU && u.Op == token.MUL && u.Block() == lc.Block() {
						if _, isFld3 := isF(u.X, field); isFld3 {
							restored = true
						}
					}
				}
				if !restored {
					ok = false
				}
			}
		})
	}
	return ok && inits >= 1
}

// c01EOF: after the top-level expression, every path to the worker's return tests token == EOF and rejects otherwise.
// Returns the rejecting construct kind ("assert", "panic", "diagnostic") for C15.
func c01EOF(c *Ctx, ro *ParserRoles, rule string) string {
	var exprCall ssa.Instruction
	instrs(ro.Worker, func(b *ssa.BasicBlock, i int, in ssa.Instruction) {
		if call, isC := in.(*ssa.Call); isC && calleeOf(call) != nil && c.canon(calleeOf(call)) == ro.Expr {
			exprCall = in
		}
	})
	if exprCall == nil {
		c.R.Undecided(rule, "worker", c.P.Pos(ro.Worker.Pos()), "top-level parse call not found")
		return ""
	}
	eof := c.SK("SK_EndOfFile")
	after, taint := c.taintFrom(ro.Worker, exprCall)
	kind := ""
	isTokEOF := func(v ssa.Value) (bool, token.Token) {
		bo, ok := v.(*ssa.BinOp)
		if !ok || (bo.Op != token.EQL && bo.Op != token.NEQ) {
			return false, 0
		}
		for _, pr := range [][2]ssa.Value{{bo.X, bo.Y}, {bo.Y, bo.X}} {
			if n, ok := constIntArg(pr[1]); ok && n == eof && c.isTokenRead(pr[0]) {
				in := pr[0].(ssa.Instruction)
				if after[in] && !taint[in] {
					return true, bo.Op
				}
			}
		}
		return false, 0
	}
	// the checks: instructions that enforce token == EOF
	checks := map[ssa.Instruction]bool{}
	instrs(ro.Worker, func(b *ssa.BasicBlock, i int, in ssa.Instruction) {
		switch x := in.(type) {
		case *ssa.Call:
			cal := calleeOf(x)
			if cal == nil {
				return
			}
			// assert helper: f(cond bool, ...) that panics when cond is false
			for _, a := range x.Call.Args {
				if ok, op := isTokEOF(a); ok && op == token.EQL && c.panicsWhenFalse(cal) {
					checks[in] = true
					kind = "assert"
				}
			}
			// expectation of SK_EndOfFile
			if c.expectsKind(cal) {
				for _, a := range x.Call.Args {
					if n, ok := constIntArg(a); ok && n == eof && typeName(a.Type()) == "SyntaxKind" && after[in] && !taint[in] {
						checks[in] = true
						kind = "diagnostic"
					}
				}
			}
		case *ssa.If:
			ok, op := isTokEOF(x.Cond)
			if !ok {
				return
			}
			bad := b.Succs[1]
			if op == token.NEQ {
				bad = b.Succs[0]
			}
			// the failing edge must reject: panic or diagnostic before rejoining
			rejects := false
			md := c.MustDiag()
			for _, y := range bad.Instrs {
				if _, isP := y.(*ssa.Panic); isP {
					rejects = true
					kind = "panic"
				}
				if call, isC := y.(*ssa.Call); isC {
					if cal := calleeOf(call); cal != nil && md[cal] {
						rejects = true
						kind = "diagnostic"
					}
					if cal := calleeOf(call); cal != nil && c.alwaysPanics(cal) {
						rejects = true
						kind = "panic"
					}
				}
			}
			if rejects {
				checks[in] = true
			}
		}
	})
	missing := pathExists(ro.Worker, exprCall, isReturn, func(in ssa.Instruction) bool { return checks[in] }, nil)
	c.R.Check(rule, "after-top-level-expression", c.P.InstrPos(exprCall), len(checks) > 0 && !missing, "after the top-level expression every path must test the current token against end-of-input and reject the input otherwise (assert, panic or diagnostic); without it trailing tokens are silently dropped")
	return kind
}

// panicsWhenFalse: f's first bool parameter false leads to a panic on every path.
func (c *Ctx) panicsWhenFalse(f *ssa.Function) bool {
	if f == nil || len(f.Blocks) == 0 || !c.inModule(f) {
		return false
	}
	bi := -1
	for i, p := range f.Params {
		if isBoolType(p.Type()) {
			bi = i
			break
		}
	}
	if bi < 0 {
		return false
	}
	args := makeBottoms(len(f.Params))
	args[bi] = boolLV(false)
	r := (&Folder{P: c.P, MaxDepth: 1}).Fold(f, args)
	return len(r.Returns) == 0 && len(r.Panics) > 0
}

func (c *Ctx) alwaysPanics(f *ssa.Function) bool {
	if f == nil || len(f.Blocks) == 0 {
		return false
	}
	ret := false
	instrs(f, func(b *ssa.BasicBlock, i int, in ssa.Instruction) {
		if isReturn(in) {
			ret = true
		}
	})
	return !ret
}

// placeholderSites: places where a zero-width node is made: a call of a
// function that sets both ends of its argument to the same start position,
// or SetPos(x); SetEnd(x) with the same x on a node.
func (c *Ctx) placeholderSites(ro *ParserRoles) []ssa.Instruction {
	var makers []*ssa.Function
	isStartPos := func(v ssa.Value) bool {
		call, ok := v.(*ssa.Call)
		if !ok {
			return false
		}
		cal := calleeOf(call)
		return cal != nil && c.inModule(cal) && (cal.Name() == "startPos" || cal.Name() == "getNodePos" || cal.Name() == "GetStartPos" || c.returnsStartPos(cal))
	}
	for _, f := range ro.Reach.Order {
		var setPos, setEnd ssa.Value
		instrs(f, func(b *ssa.BasicBlock, i int, in ssa.Instruction) {
			call, ok := in.(ssa.CallInstruction)
			if !ok {
				return
			}
			cc := call.Common()
			name := ""
			var arg ssa.Value
			if cc.IsInvoke() {
				name = cc.Method.Name()
				if len(cc.Args) > 0 {
					arg = cc.Args[0]
				}
			} else if cal := calleeOf(call); cal != nil {
				name = fnBase(cal)
				if len(cc.Args) > 1 {
					arg = cc.Args[1]
				}
			}
			if name == "SetPos" && arg != nil && isStartPos(arg) {
				setPos = arg
			}
			if name == "SetEnd" && arg != nil && isStartPos(arg) {
				setEnd = arg
			}
		})
		if setPos != nil && setEnd != nil && len(f.Params) >= 2 && f != ro.Worker {
			// a helper taking the node as a parameter
			if _, isIface := f.Params[len(f.Params)-1].Type().Underlying().(*types.Interface); isIface {
				makers = append(makers, f)
			}
		}
	}
	var out []ssa.Instruction
	for _, f := range ro.Reach.Order {
		var setPosOn, setEndOn map[ssa.Value]ssa.Instruction
		setPosOn, setEndOn = map[ssa.Value]ssa.Instruction{}, map[ssa.Value]ssa.Instruction{}
		instrs(f, func(b *ssa.BasicBlock, i int, in ssa.Instruction) {
			call, ok := in.(*ssa.Call)
			if !ok {
				return
			}
			cal := calleeOf(call)
			for _, m := range makers {
				if cal == m {
					out = append(out, in)
				}
			}
			if cal != nil && (fnBase(cal) == "SetPos" || fnBase(cal) == "SetEnd") && len(call.Call.Args) == 2 && isStartPos(call.Call.Args[1]) {
				isMaker := false
				for _, m := range makers {
					if f == m {
						isMaker = true
					}
				}
				if isMaker {
					return
				}
				// on a fresh node of this function
				for _, rt := range plainOrigins.Roots(call.Call.Args[0]) {
					if rt.Kind == "alloc" {
						if fnBase(cal) == "SetPos" {
							setPosOn[rt.V] = in
						} else {
							setEndOn[rt.V] = in
						}
					}
				}
			}
		})
		for v, in := range setPosOn {
			if e, ok := setEndOn[v]; ok && typeName(v.Type()) != "NodeList" && !c.consumerBetween(f, in, e) {
				out = append(out, in)
			}
		}
	}
	sort.Slice(out, func(i, j int) bool { return out[i].Pos() < out[j].Pos() })
	return out
}

func c01Placeholder(c *Ctx, ro *ParserRoles) {
	const rule = "C01.placeholder-has-diagnostic"
	md := c.MustDiag()
	isDiag := func(in ssa.Instruction) bool {
		call, ok := in.(*ssa.Call)
		if !ok {
			return false
		}
		cal := calleeOf(call)
		return cal != nil && md[cal]
	}
	sites := c.placeholderSites(ro)
	per := map[string]int{}
	// covered: every path through f that passes instruction s also passes a diagnostic; when f itself
	// records none (a helper that only builds the placeholder), every call site of f has to be covered
	var covered func(s ssa.Instruction, depth int) (bool, string)
	covered = func(s ssa.Instruction, depth int) (bool, string) {
		f := s.Parent()
		before := pathExists(f, nil, func(x ssa.Instruction) bool { return x == s }, isDiag, nil)
		afterFree := pathExists(f, s, isReturn, isDiag, nil)
		if !(before && afterFree) {
			return true, ""
		}
		if depth >= 3 {
			return false, c.P.FuncKey(f)
		}
		n := 0
		for _, g := range ro.Reach.Order {
			for _, cs := range callsTo(g, f) {
				n++
				if ok, where := covered(cs, depth+1); !ok {
					return false, where
				}
			}
		}
		if n == 0 {
			return false, c.P.FuncKey(f) + " (no call sites)"
		}
		return true, ""
	}
	for _, s := range sites {
		f := s.Parent()
		per[c.P.FuncKey(f)]++
		cons := fmt.Sprintf("%s: placeholder#%d", c.P.FuncKey(f), per[c.P.FuncKey(f)])
		ok, where := covered(s, 0)
		c.R.Check(rule, cons, c.P.InstrPos(s), ok, "a zero-width placeholder node is created here on a path that records no diagnostic (neither here nor in the caller "+where+"): the tree would contain an empty name / missing token without the parse failing")
	}
	c.R.Floor(rule, 1)
}

func c01Speculation(c *Ctx, ro *ParserRoles) {
	const rule = "C01.speculation-is-pure"
	n := 0
	for _, f := range ro.Reach.Order {
		instrs(f, func(b *ssa.BasicBlock, i int, in ssa.Instruction) {
			call, ok := in.(*ssa.Call)
			if !ok {
				return
			}
			cal := calleeOf(call)
			if cal == nil || !(fnBase(cal) == "lookAhead" || fnBase(cal) == "tryParse" || fnBase(cal) == "parserSpeculationHelper") {
				return
			}
			if cal.Parent() != nil {
				return
			}
			for _, a := range call.Call.Args {
				g := fnValue(a)
				if g == nil {
					continue
				}
				n++
				sub := c.P.Reach([]*ssa.Function{g}, c.inModule, nil)
				allocs := c.nodeAllocs(sub.In)
				c.R.Check(rule, "callback "+c.P.FuncKey(g)+" at "+c.P.FuncKey(f), c.P.InstrPos(in), len(allocs) == 0, "a speculative callback allocates tree nodes; diagnostics recorded during speculation are rolled back, so a placeholder made there would lose its diagnostic")
			}
		})
	}
	c.R.Floor(rule, 1)
}

// requiredFields: operand fields that must be stored for a node of type nt.
func (c *Ctx) requiredFields(nt *types.Named) []string {
	st, ok := nt.Underlying().(*types.Struct)
	if !ok {
		return nil
	}
	name := nt.Obj().Name()
	var out []string
	for i := 0; i < st.NumFields(); i++ {
		f := st.Field(i)
		if f.Embedded() {
			continue
		}
		tn := typeName(f.Type())
		switch {
		case tn == "Expression" || tn == "TokenNode" || tn == "Identifier" || tn == "NodeList":
			if name == "CallExpression" && f.Name() == "DotDotDotToken" {
				continue // optional: present only when the call spreads
			}
			out = append(out, f.Name())
		case name == "Identifier" && f.Name() == "Value", name == "LiteralExpression" && (f.Name() == "Value" || f.Name() == "Token"), name == "TokenNode" && f.Name() == "Token":
			out = append(out, f.Name())
		}
	}
	return out
}

func c01Fields(c *Ctx, ro *ParserRoles) {
	const rule = "C01.fields-complete"
	sites := c.nodeAllocs(ro.Reach.In)
	placeholders := map[ssa.Value]bool{}
	for _, s := range c.placeholderSites(ro) {
		if call, ok := s.(*ssa.Call); ok {
			for _, a := range call.Call.Args {
				for _, rt := range plainOrigins.Roots(a) {
					if rt.Kind == "alloc" {
						placeholders[rt.V] = true
					}
				}
			}
		}
	}
	per := map[string]int{}
	types_ := map[string]bool{}
	for _, s := range sites {
		nt := namedOf(s.Alloc.Type())
		if nt == nil || s.Type == "SourceCode" || s.Type == "NodeList" {
			continue
		}
		if placeholders[s.Alloc] {
			continue // a placeholder: covered by C01.placeholder-has-diagnostic
		}
		types_[s.Type] = true
		key := c.P.FuncKey(s.Fn) + ":" + s.Type
		per[key]++
		for _, fld := range c.requiredFields(nt) {
			stores := func(in ssa.Instruction) bool {
				st, ok := in.(*ssa.Store)
				if !ok {
					return false
				}
				fa, ok := st.Addr.(*ssa.FieldAddr)
				return ok && fa.X == ssa.Value(s.Alloc) && fieldName(fa) == fld
			}
			missing := pathExists(s.Fn, s.Alloc, isReturn, stores, nil)
			c.R.Check(rule, fmt.Sprintf("%s#%d.%s", key, per[key], fld), c.P.InstrPos(s.Alloc), !missing, "there is a path from this allocation to the function's return on which field "+fld+" of the new *"+s.Type+" is never set: the tree would contain a node with a missing operand")
		}
	}
	c.R.Analysed["node_types_allocated_by_parser"] = sortedKeys(types_)
	c.R.Check(rule, "all-node-types-allocated", "-", len(types_) >= 11, fmt.Sprintf("only %d node types are allocated by the parser (expected the ten expression nodes and the token node)", len(types_)))
	c.R.Floor(rule, 10)
}

// consumerBetween: some may-consumer call can execute strictly between a and b (on a path from a to b
// that does not pass a again).
func (c *Ctx) consumerBetween(f *ssa.Function, a, b ssa.Instruction) bool {
	may := c.MayConsume()
	isA := func(x ssa.Instruction) bool { return x == a }
	found := false
	instrs(f, func(blk *ssa.BasicBlock, i int, q ssa.Instruction) {
		if found || q == a || q == b {
			return
		}
		call, ok := q.(ssa.CallInstruction)
		if !ok {
			return
		}
		cal := calleeOf(call)
		if cal != nil && !may[cal] {
			return
		}
		if cal == nil {
			if _, isB := call.Common().Value.(*ssa.Builtin); isB {
				return
			}
			if call.Common().IsInvoke() {
				hit := false
				for _, g := range c.P.implementations(call.Common()) {
					if may[g] {
						hit = true
					}
				}
				if !hit {
					return
				}
			}
		}
		if pathExists(f, a, func(x ssa.Instruction) bool { return x == q }, isA, nil) && pathExists(f, q, func(x ssa.Instruction) bool { return x == b }, isA, nil) {
			found = true
		}
	})
	return found
}

// nonNilAt: v was tested against nil and `use` is dominated by the non-nil edge.
func nonNilAt(v ssa.Value, use ssa.Instruction) bool {
	if use == nil {
		return false
	}
	refs := v.Referrers()
	if refs == nil {
		return false
	}
	for _, ref := range *refs {
		bo, ok := ref.(*ssa.BinOp)
		if !ok || (bo.Op != token.EQL && bo.Op != token.NEQ) {
			continue
		}
		var other ssa.Value
		if bo.X == v {
			other = bo.Y
		} else {
			other = bo.X
		}
		if !isNilConst(other) {
			continue
		}
		for _, r2 := range *bo.Referrers() {
			iff, ok := r2.(*ssa.If)
			if !ok {
				continue
			}
			nn := iff.Block().Succs[0]
			if bo.Op == token.EQL {
				nn = iff.Block().Succs[1]
			}
			if len(nn.Preds) == 1 && (nn == use.Block() || nn.Dominates(use.Block())) {
				return true
			}
		}
	}
	return false
}

// ---------- never nil ----------

type nnKey struct {
	f   *ssa.Function
	idx int
}

func (c *Ctx) neverNil(f *ssa.Function, idx int, assume map[nnKey]bool, ro *ParserRoles, depth int) (bool, string) {
	if f == nil || len(f.Blocks) == 0 {
		return false, "no body"
	}
	k := nnKey{f, idx}
	if assume[k] {
		return true, ""
	}
	if depth > 30 {
		return false, "too deep"
	}
	assume[k] = true
	ok := true
	why := ""
	// the frozen, checked exception: the argument list parser returns nil only when its opening token is missing
	skipNil := map[*ssa.Return]bool{}
	if f == ro.ArgList {
		r := c.tokenFolder(c.SK("SK_OpenParen")).Fold(f, recvArgs(f))
		instrs(f, func(b *ssa.BasicBlock, i int, in ssa.Instruction) {
			if ret, isRet := in.(*ssa.Return); isRet && !r.Reach[b] {
				skipNil[ret] = true
			}
		})
	}
	instrs(f, func(b *ssa.BasicBlock, i int, in ssa.Instruction) {
		ret, isRet := in.(*ssa.Return)
		if !isRet || !ok || idx >= len(ret.Results) || skipNil[ret] {
			return
		}
		for _, rt := range c.nodeOrigins().Roots(ret.Results[idx]) {
			if !ok {
				break
			}
			rt, _ = c.inductiveOperand(rt)
			switch {
			case rt.Kind == "alloc" && len(rt.Path) == 0:
			case rt.Kind == "call" && len(rt.Path) == 0 && nonNilAt(rt.V, in):
			case rt.Kind == "call" && rt.Fn != nil && c.inModule(rt.Fn) && len(rt.Path) == 0:
				if sub, w := c.neverNil(rt.Fn, rt.Idx, assume, ro, depth+1); !sub {
					ok, why = false, c.P.FuncKey(rt.Fn)+" may return nil: "+w
				}
			case rt.Kind == "param" && len(rt.Path) == 0:
				// every call site passes a never-nil value
				pk := nnKey{f, -1 - rt.Idx}
				if assume[pk] {
					break
				}
				assume[pk] = true
				n := 0
				for _, g := range ro.Reach.Order {
					for _, cs := range callsTo(g, f) {
						n++
						if sub, w := c.valueNeverNil(cs.Call.Args[rt.Idx], cs, assume, ro, depth+1); !sub {
							ok, why = false, "called from "+c.P.FuncKey(g)+" with a value that may be nil: "+w
						}
					}
				}
				if n == 0 {
					ok, why = false, "parameter of a function with no call sites"
				}
			case rt.Kind == "const":
				ok, why = false, "returns nil at "+c.P.InstrPos(ret)
			default:
				ok, why = false, "returns "+rt.String()+" at "+c.P.InstrPos(ret)
			}
		}
	})
	if !ok {
		delete(assume, k)
	}
	return ok, why
}

// inductiveOperand: rt is a load of a required operand field (X.Expression, X.Left, ...) of a node. C01.never-nil
// itself establishes that every allocation stores a non-nil value into each such field, so - by induction over the
// finished nodes - the loaded operand is non-nil whenever its holder is; what remains to be shown is the holder.
func (c *Ctx) inductiveOperand(rt Root) (Root, bool) {
	if len(rt.Path) != 1 || rt.V == nil {
		return rt, false
	}
	t := rt.V.Type()
	if tup, ok := t.(*types.Tuple); ok && rt.Idx < tup.Len() {
		t = tup.At(rt.Idx).Type()
	}
	nt := namedOf(deref(t))
	if nt == nil {
		return rt, false
	}
	for _, f := range c.requiredFields(nt) {
		if f == rt.Path[0] {
			rt.Path = nil
			return rt, true
		}
	}
	return rt, false
}

func (c *Ctx) valueNeverNil(v ssa.Value, use ssa.Instruction, assume map[nnKey]bool, ro *ParserRoles, depth int) (bool, string) {
	// the value itself (e.g. a loop variable) was tested against nil and the use sits on the non-nil edge
	if nonNilAt(stripIface(v), use) {
		return true, ""
	}
	for _, rt := range c.nodeOrigins().Roots(v) {
		rt, _ = c.inductiveOperand(rt)
		switch {
		case rt.Kind == "alloc" && len(rt.Path) == 0:
		case rt.Kind == "call" && len(rt.Path) == 0 && nonNilAt(rt.V, use):
		case rt.Kind == "call" && rt.Fn != nil && c.inModule(rt.Fn) && len(rt.Path) == 0:
			if ok, w := c.neverNil(rt.Fn, rt.Idx, assume, ro, depth+1); !ok {
				return false, c.P.FuncKey(rt.Fn) + ": " + w
			}
		case rt.Kind == "param" && len(rt.Path) == 0:
			f := rt.V.(*ssa.Parameter).Parent()
			pk := nnKey{f, -1 - rt.Idx}
			if assume[pk] {
				continue
			}
			assume[pk] = true
			n := 0
			for _, g := range ro.Reach.Order {
				for _, cs := range callsTo(g, f) {
					n++
					if depth > 30 {
						return false, "too deep"
					}
					if ok, w := c.valueNeverNil(cs.Call.Args[rt.Idx], cs, assume, ro, depth+1); !ok {
						return false, w
					}
				}
			}
			if n == 0 {
				return false, "parameter without call sites"
			}
		default:
			return false, rt.String()
		}
	}
	return true, ""
}

var nodeOriginsCache = map[*Ctx]*Origins{}

// nodeOrigins: finishNode-like helpers (generic functions returning their node parameter) carry the node's identity.
func (c *Ctx) nodeOrigins() *Origins {
	if o, ok := nodeOriginsCache[c]; ok {
		return o
	}
	o := &Origins{PassThrough: func(call *ssa.Call) int {
		cal := calleeOf(call)
		if cal == nil || !c.inModule(cal) || len(cal.Blocks) == 0 {
			return -1
		}
		// all returns are exactly one parameter
		idx := -1
		okAll := true
		instrs(cal, func(b *ssa.BasicBlock, i int, in ssa.Instruction) {
			ret, isRet := in.(*ssa.Return)
			if !isRet || len(ret.Results) != 1 {
				if isRet {
					okAll = false
				}
				return
			}
			p, isP := ret.Results[0].(*ssa.Parameter)
			if !isP {
				okAll = false
				return
			}
			pi := paramIndex(p)
			if idx >= 0 && idx != pi {
				okAll = false
			}
			idx = pi
		})
		if okAll && idx >= 0 && fnBase(cal) != "" && cal.Signature.Recv() == nil && isPointerLike(cal.Params[idx].Type()) && cal.Origin() != nil {
			return idx
		}
		return -1
	}}
	nodeOriginsCache[c] = o
	return o
}

func c01NeverNil(c *Ctx, ro *ParserRoles) {
	const rule = "C01.never-nil"
	sites := c.nodeAllocs(ro.Reach.In)
	n := 0
	seen := map[string]bool{}
	for _, s := range sites {
		nt := namedOf(s.Alloc.Type())
		if nt == nil || s.Type == "NodeList" {
			continue
		}
		for _, fld := range c.requiredFields(nt) {
			st, _ := nt.Underlying().(*types.Struct)
			var ft types.Type
			for i := 0; i < st.NumFields(); i++ {
				if st.Field(i).Name() == fld {
					ft = st.Field(i).Type()
				}
			}
			if ft == nil || !isPointerLike(ft) {
				continue
			}
			instrs(s.Fn, func(b *ssa.BasicBlock, i int, in ssa.Instruction) {
				stv, ok := in.(*ssa.Store)
				if !ok {
					return
				}
				fa, ok := stv.Addr.(*ssa.FieldAddr)
				if !ok || fa.X != ssa.Value(s.Alloc) || fieldName(fa) != fld {
					return
				}
				cons := c.P.FuncKey(s.Fn) + ":" + s.Type + "." + fld
				if seen[cons] {
					cons += "'"
				}
				seen[cons] = true
				n++
				ok2, why := c.valueNeverNil(stv.Val, in, map[nnKey]bool{}, ro, 0)
				c.R.Check(rule, cons, c.P.InstrPos(in), ok2, "the value stored into "+s.Type+"."+fld+" may be nil ("+why+"): a tree returned without error must have every operand")
			})
		}
	}
	// list elements
	instrs(ro.List, func(b *ssa.BasicBlock, i int, in ssa.Instruction) {
		call, ok := in.(*ssa.Call)
		if !ok {
			return
		}
		if cal := calleeOf(call); cal != nil && fnBase(cal) == "Add" && typeName(recvType(cal)) == "NodeList" {
			// the element comes from the element parser callback
			n++
			okEl := true
			why := ""
			for _, rt := range plainOrigins.Roots(call.Call.Args[1]) {
				if rt.Kind == "call" && rt.Fn == nil {
					// dynamic call of the callback parameter: each bound callback must never return nil
					for _, s := range c.listSites(ro) {
						for i, p := range ro.List.Params {
							if _, isSig := p.Type().Underlying().(*types.Signature); isSig {
								g := fnValue(s.Call.Call.Args[i])
								if g == nil {
									okEl, why = false, "callback not resolved"
									continue
								}
								if ok3, w := c.neverNil(g, 0, map[nnKey]bool{}, ro, 0); !ok3 {
									okEl, why = false, c.P.FuncKey(g)+": "+w
								}
							}
						}
					}
				} else {
					okEl, why = false, rt.String()
				}
			}
			c.R.Check(rule, "list-element", c.P.InstrPos(in), okEl, "list elements may be nil: "+why)
		}
	})
	// the checked exception
	if ro.ArgList != nil {
		// its only call site is dominated by token() == SK_OpenParen with no consumer in between
		oparen := c.SK("SK_OpenParen")
		nSites := 0
		for _, g := range ro.Reach.Order {
			for _, cs := range callsTo(g, ro.ArgList) {
				nSites++
				guarded := false
				if k, tr, ok := c.tokenGuardOf(cs); ok && k == oparen && !c.consumerBetween(g, tr, cs) {
					guarded = true
				}
				c.R.Check(rule, "exception:argument-list-call-site", c.P.InstrPos(cs), guarded, "the argument-list parser returns nil when its `(` is missing; its call site must therefore be entered only on the true edge of `token() == SK_OpenParen`, with no token consumed in between")
			}
		}
		_ = nSites
	}
	c.R.Analysed["operand_stores_checked"] = n
	c.R.Floor(rule, 9)
}

// ---------- scanner diagnostics binding ----------

func c01ScanErrorBinding(c *Ctx, ro *ParserRoles) {
	const rule = "C01.scan-error-binding"
	// CreateScanner is called by the worker with a handler that must reach the diagnostic recorder
	ok := false
	instrs(ro.Worker, func(b *ssa.BasicBlock, i int, in ssa.Instruction) {
		call, isC := in.(*ssa.Call)
		if !isC {
			return
		}
		cal := calleeOf(call)
		if cal == nil || !c.inModule(cal) {
			return
		}
		for _, a := range call.Call.Args {
			if g := fnValue(a); g != nil && typeName(a.Type()) == "ErrorHandler" || g != nil && strings.Contains(a.Type().String(), "ErrorHandler") {
				if c.MustDiag()[g] {
					ok = true
				}
			}
		}
	})
	c.R.Check(rule, "worker", c.P.Pos(ro.Worker.Pos()), ok, "the scanner must be created with an error handler that records a parser diagnostic on every call (otherwise scanner errors such as unterminated literals are silently accepted)")
	// the scanner's error methods forward to the handler whenever it is set
	n := 0
	for f := range c.scannerDiagFns() {
		n++
		// the dynamic call is skipped only when onError == nil
		skippable := false
		var dyn ssa.Instruction
		instrs(f, func(b *ssa.BasicBlock, i int, in ssa.Instruction) {
			if call, isC := in.(*ssa.Call); isC && call.Call.StaticCallee() == nil && !call.Call.IsInvoke() {
				if _, isB := call.Call.Value.(*ssa.Builtin); !isB {
					dyn = in
				}
			}
		})
		if dyn != nil {
			r := c.foldWith(f, 0, pinNilCompareOfField("onError", false))
			skippable = pathExistsIn(r, nil, isReturn, func(x ssa.Instruction) bool { return x == dyn })
		}
		c.R.Check(rule, "forwarder:"+c.P.FuncKey(f), c.P.Pos(f.Pos()), dyn != nil && !skippable, "with a handler installed, every call of this scanner error method must reach the handler")
	}
	c.R.Check(rule, "forwarders-found", "-", n >= 1, "expected at least one scanner error-reporting method forwarding to the handler")
	// the handler field is not overwritten with nil while parsing
	for _, f := range ro.Reach.Order {
		instrs(f, func(b *ssa.BasicBlock, i int, in ssa.Instruction) {
			if st, isSt := in.(*ssa.Store); isSt && isScannerField(st.Addr, "onError") {
				if isNilConst(st.Val) {
					c.R.Add(rule, "handler cleared in "+c.P.FuncKey(f), c.P.InstrPos(in), Violation, "the scanner's error handler is cleared while parsing")
				}
			}
		})
	}
}

// ---------- scanner progress ----------

func c01ScannerProgress(c *Ctx) {
	const rule = "C01.scanner-progress"
	scan := c.scanFn()
	pos := c.P.Pos(scan.Pos())
	follow := []string{"", " ", "5", "x", "=", "_", "\n", ".", "\\", "e"}
	var firsts []rune
	for r := rune(0); r < 128; r++ {
		firsts = append(firsts, r)
	}
	firsts = append(firsts, 0x85, 0xA0, 0x2028, 0x2029, 0x3000, 0xFEFF, 0x4E2D, 0xE9, 0xD7, 0xFF0C, 0x201C, 0xFFFD, 0x0301, 0x1F600)
	walks := 0
	for _, r := range firsts {
		bad := ""
		for _, fo := range follow {
			walks++
			out := c.ScanFirstPath(string(r) + fo)
			switch out.Kind {
			case "advanced":
			case "returned":
				bad = fmt.Sprintf("on input %q Scan returns at %s without having advanced the position: the parser would see the same character forever", string(r)+fo, c.P.InstrPos(out.At))
			case "looped":
				bad = fmt.Sprintf("on input %q: %s", string(r)+fo, out.Why)
			default:
				bad = fmt.Sprintf("on input %q the path to the first advance cannot be decided: %s (%s)", string(r)+fo, out.Why, c.P.InstrPos(out.At))
			}
			if bad != "" {
				break
			}
		}
		cons := fmt.Sprintf("first-rune:U+%04X", r)
		if bad == "" {
			c.R.Add(rule, cons, pos, OK, "")
		} else if strings.Contains(bad, "cannot be decided") {
			c.R.Undecided(rule, cons, pos, bad)
		} else {
			c.R.Add(rule, cons, pos, Violation, bad)
		}
	}
	// end of input: returns the end-of-file token without advancing (expected)
	out := c.ScanFirstPath("")
	c.R.Check(rule, "end-of-input", pos, out.Kind == "returned", "at the end of input Scan must return (the end-of-file token) without reading")
	c.R.Analysed["scanner_first_path_walks"] = walks
	c.R.Floor(rule, 140)
}

// ---------- loop progress (scanner, line table, bisections) ----------

func (c *Ctx) mustAdvanceFns() map[*ssa.Function]bool {
	res := map[*ssa.Function]bool{}
	for changed := true; changed; {
		changed = false
		for _, f := range c.P.ModFuncs {
			if res[f] || len(f.Blocks) == 0 || !c.PosWriters()[f] {
				continue
			}
			adv := func(in ssa.Instruction) bool {
				if c.isAdvanceStore(in) {
					return true
				}
				if call, ok := in.(*ssa.Call); ok {
					if cal := calleeOf(call); cal != nil && res[cal] {
						return true
					}
				}
				return false
			}
			hasRet := false
			instrs(f, func(b *ssa.BasicBlock, i int, in ssa.Instruction) {
				if isReturn(in) {
					hasRet = true
				}
			})
			if hasRet && !pathExists(f, nil, isReturn, adv, nil) {
				res[f] = true
				changed = true
			}
		}
	}
	return res
}

func c01LoopProgress(c *Ctx, entry *ssa.Function) {
	const rule = "C01.loop-progress"
	// loops in functions reachable from parsing and error formatting, excluding the parser's token loops (C01.parser-progress)
	roots := []*ssa.Function{entry, c.fn("FormatDiagnostic")}
	rr := c.ReachFrom("parse+format", roots...)
	must := c.mustAdvanceFns()
	may := c.MayConsume()
	var fs []*ssa.Function
	fs = append(fs, rr.Order...)
	sort.Slice(fs, func(i, j int) bool { return c.P.FuncKey(fs[i]) < c.P.FuncKey(fs[j]) })
	n := 0
	for _, f := range fs {
		isParserFn := typeName(recvType(f)) == "Parser" || (f.Signature.Recv() == nil && len(f.Params) > 0 && typeName(f.Params[0].Type()) == "Parser")
		for li, l := range naturalLoops(f) {
			if isParserFn && may[f] {
				continue
			}
			n++
			cons := fmt.Sprintf("%s: loop#%d", c.P.FuncKey(f), li+1)
			hpos := c.P.InstrPos(l.Header.Instrs[0])
			// (1) a cycle that passes no position advance?
			progress := func(in ssa.Instruction) bool {
				if c.isAdvanceStore(in) {
					return true
				}
				if st, ok := in.(*ssa.Store); ok && isScannerField(st.Addr, "pos") {
					// pos = phi whose in-loop values are all advances (identifier loop: tar = peekCheck(...))
					if phi, ok := st.Val.(*ssa.Phi); ok {
						all := true
						any := false
						for i, e := range phi.Edges {
							if l.Body[phi.Block().Preds[i]] {
								any = true
								if !c.isAdvanceValue(e, func(v ssa.Value) bool {
									u, ok := v.(*ssa.UnOp)
									return ok && isScannerField(u.X, "pos")
								}) {
									all = false
								}
							}
						}
						return all && any
					}
				}
				if call, ok := in.(*ssa.Call); ok {
					if cal := calleeOf(call); cal != nil && must[cal] {
						return true
					}
				}
				return false
			}
			if _, stuck := l.cycleAvoiding(progress, nil); !stuck {
				c.R.Add(rule, cons, hpos, OK, "")
				continue
			}
			// (2) a loop over a local position: every back edge increases a header phi
			if okPhi, _ := c.localAdvanceLoop(l); okPhi {
				c.R.Add(rule, cons, hpos, OK, "")
				continue
			}
			// (3) a bisection
			if okB, why, isB := c.bisectionLoop(l); isB {
				c.R.Check(rule, cons, hpos, okB, "bisection loop may not terminate: "+why)
				continue
			}
			// (4) a counting / range loop
			if okC, _ := c.boundedLoop(f, l); okC {
				c.R.Add(rule, cons, hpos, OK, "")
				continue
			}
			path, _ := l.cycleAvoiding(progress, nil)
			c.R.Add(rule, cons, hpos, Violation, "there is a cycle through this loop on which the position is not advanced ("+blockPath(path)+"): the scanner can hang on some input")
		}
	}
	c.R.Analysed["progress_loops_checked"] = n
	c.R.Floor(rule, 6)
}

// localAdvanceLoop: on every back edge some header phi (an int position) receives phi + positive.
func (c *Ctx) localAdvanceLoop(l *Loop) (bool, string) {
	h := l.Header
	var phis []*ssa.Phi
	for _, in := range h.Instrs {
		if p, ok := in.(*ssa.Phi); ok && isIntType(p.Type()) {
			phis = append(phis, p)
		}
	}
	if len(phis) == 0 {
		return false, "no integer loop variable"
	}
	for i, pred := range h.Preds {
		if !l.Body[pred] {
			continue
		}
		adv := false
		for _, p := range phis {
			if c.isAdvanceValue(p.Edges[i], func(v ssa.Value) bool { return v == ssa.Value(p) }) {
				adv = true
			}
		}
		if !adv {
			return false, "back edge from block " + itoa(pred.Index) + " advances no loop variable"
		}
	}
	return true, ""
}

// bisectionLoop recognises `for lo (+c) < / <= hi { mid := f(lo,hi); ... hi = mid (-c) | lo = mid + c }`
// and checks that every update shrinks the interval under the loop condition.
func (c *Ctx) bisectionLoop(l *Loop) (ok bool, why string, isBisection bool) {
	h := l.Header
	iff, isIf := h.Instrs[len(h.Instrs)-1].(*ssa.If)
	if !isIf {
		return false, "", false
	}
	cond, isB := iff.Cond.(*ssa.BinOp)
	if !isB || (cond.Op != token.LSS && cond.Op != token.LEQ) {
		return false, "", false
	}
	// lo side may be lo or lo + c
	var lo, hi *ssa.Phi
	loOff := int64(0)
	switch x := cond.X.(type) {
	case *ssa.Phi:
		lo = x
	case *ssa.BinOp:
		if p, ok := x.X.(*ssa.Phi); ok && x.Op == token.ADD {
			if n, ok := constIntArg(x.Y); ok {
				lo, loOff = p, n
			}
		}
	}
	hi, _ = cond.Y.(*ssa.Phi)
	if lo == nil || hi == nil || lo.Block() != h || hi.Block() != h {
		return false, "", false
	}
	dependsOnBoth := func(v ssa.Value) bool {
		seenLo, seenHi := false, false
		seen := map[ssa.Value]bool{}
		var walk func(x ssa.Value, d int)
		walk = func(x ssa.Value, d int) {
			if x == nil || seen[x] || d > 12 {
				return
			}
			seen[x] = true
			if x == ssa.Value(lo) {
				seenLo = true
				return
			}
			if x == ssa.Value(hi) {
				seenHi = true
				return
			}
			if in, ok := x.(ssa.Instruction); ok {
				if _, isPhi := x.(*ssa.Phi); isPhi {
					return
				}
				var ops []*ssa.Value
				for _, op := range in.Operands(ops) {
					walk(*op, d+1)
				}
			}
		}
		walk(v, 0)
		return seenLo && seenHi
	}
	// classify an update value: mid + k
	midPlus := func(v ssa.Value) (int64, bool) {
		if dependsOnBoth(v) {
			if bo, ok := v.(*ssa.BinOp); ok && (bo.Op == token.ADD || bo.Op == token.SUB) {
				if n, ok := constIntArg(bo.Y); ok && dependsOnBoth(bo.X) {
					if bo.Op == token.SUB {
						n = -n
					}
					return n, true
				}
			}
			return 0, true
		}
		return 0, false
	}
	found := false
	strict := cond.Op == token.LSS && loOff >= 0
	for i, pred := range h.Preds {
		if !l.Body[pred] {
			continue
		}
		le, he := lo.Edges[i], hi.Edges[i]
		loSame, hiSame := le == ssa.Value(lo), he == ssa.Value(hi)
		switch {
		case loSame && !hiSame:
			k, isMid := midPlus(he)
			if !isMid {
				return false, "", false
			}
			found = true
			// hi' = mid + k must be < hi: mid <= hi always (for lo <= hi); mid < hi needs lo < hi
			if k > 0 || (k == 0 && !strict) {
				return false, fmt.Sprintf("the upper bound is set to mid%+d while the loop runs on `%s`: when the interval has one element the bound does not move", k, cond.Op), true
			}
		case hiSame && !loSame:
			k, isMid := midPlus(le)
			if !isMid {
				return false, "", false
			}
			found = true
			if k < 1 {
				return false, fmt.Sprintf("the lower bound is set to mid%+d: it need not grow", k), true
			}
		case loSame && hiSame:
			return false, "a back edge changes neither bound", found
		default:
			return false, "", false
		}
	}
	if !found {
		return false, "", false
	}
	return true, "", true
}

// ---------- parser progress ----------

// consumeOnTrue: every return of f (under the given argument pins) that may be true / non-nil lies on a
// path that passed a must-consumer, or hands back the result of a call that itself consumes on success.
func (c *Ctx) consumesOnSuccess(f *ssa.Function, depth int) bool {
	if f == nil || len(f.Blocks) == 0 || depth > 4 {
		return false
	}
	must := c.MustConsume()
	if must[f] {
		return true
	}
	isCons := func(in ssa.Instruction) bool {
		call, ok := in.(*ssa.Call)
		if !ok {
			return false
		}
		cal := calleeOf(call)
		return cal != nil && must[cal]
	}
	ok := true
	any := false
	instrs(f, func(b *ssa.BasicBlock, i int, in ssa.Instruction) {
		ret, isRet := in.(*ssa.Return)
		if !isRet || len(ret.Results) != 1 || !ok {
			return
		}
		v := ret.Results[0]
		if k, isK := v.(*ssa.Const); isK {
			if k.Value == nil || (k.Value.Kind().String() == "Bool" && k.Value.String() == "false") {
				return
			}
		}
		any = true
		// a call result of a function that consumes on success
		if call, isC := v.(*ssa.Call); isC {
			if cal := calleeOf(call); cal != nil && (must[cal] || c.consumesOnSuccess(cal, depth+1)) {
				return
			}
		}
		// otherwise every path to this return passed a consumer
		if pathExists(f, nil, func(x ssa.Instruction) bool { return x == in }, isCons, nil) {
			ok = false
		}
	})
	return ok && any
}

// tokenGuardOf: the call is dominated by the true edge of `token() == K`; returns K and the token read.
func (c *Ctx) tokenGuardOf(call *ssa.Call) (int64, ssa.Instruction, bool) {
	for b := call.Block(); b != nil; b = b.Idom() {
		if len(b.Preds) != 1 {
			continue
		}
		p := b.Preds[0]
		iff, ok := p.Instrs[len(p.Instrs)-1].(*ssa.If)
		if !ok {
			continue
		}
		bo, ok := iff.Cond.(*ssa.BinOp)
		if !ok || (bo.Op != token.EQL && bo.Op != token.NEQ) {
			continue
		}
		eq := 0
		if bo.Op == token.NEQ {
			eq = 1
		}
		if p.Succs[eq] != b {
			continue
		}
		if k, ok := constIntArg(bo.Y); ok && c.isTokenRead(bo.X) {
			return k, bo.X.(ssa.Instruction), true
		}
		if k, ok := constIntArg(bo.X); ok && c.isTokenRead(bo.Y) {
			return k, bo.Y.(ssa.Instruction), true
		}
	}
	return 0, nil, false
}

// mustConsumeGiven: entered with current token k (and the given argument values), every returning
// path of f passes a must-consumer, or a call that itself must consume under the folded arguments.
func (c *Ctx) mustConsumeGiven(f *ssa.Function, k int64) bool {
	return c.mustConsumeGivenArgs(f, k, recvArgs(f), 0)
}

func (c *Ctx) mustConsumeGivenArgs(f *ssa.Function, k int64, args []LV, depth int) bool {
	must := c.MustConsume()
	if must[f] {
		return true
	}
	if depth > 4 || len(f.Blocks) == 0 {
		return false
	}
	for len(args) < len(f.Params) {
		args = append(args, bottom)
	}
	r := c.tokenFolder(k).Fold(f, args)
	if len(r.Returns) == 0 {
		return false
	}
	taint := c.consumerTaint(f)
	isCons := func(in ssa.Instruction) bool {
		call, ok := in.(*ssa.Call)
		if !ok {
			return false
		}
		cal := calleeOf(call)
		if cal == nil {
			return false
		}
		if must[cal] {
			return true
		}
		if c.inModule(cal) && !taint[in] && c.MayConsume()[cal] {
			var sub []LV
			for _, a := range call.Call.Args {
				sub = append(sub, r.Val(a))
			}
			return c.mustConsumeGivenArgs(cal, k, sub, depth+1)
		}
		return false
	}
	return !pathExistsIn(r, nil, isReturn, isCons)
}

func c01ParserProgress(c *Ctx, ro *ParserRoles) {
	const rule = "C01.parser-progress"
	must := c.MustConsume()
	may := c.MayConsume()
	n := 0
	var fs []*ssa.Function
	for _, f := range ro.Reach.Order {
		isParserFn := typeName(recvType(f)) == "Parser" || (f.Signature.Recv() == nil && len(f.Params) > 0 && typeName(f.Params[0].Type()) == "Parser")
		if isParserFn && may[f] {
			fs = append(fs, f)
		}
	}
	sort.Slice(fs, func(i, j int) bool { return c.P.FuncKey(fs[i]) < c.P.FuncKey(fs[j]) })
	elemPred, _ := c.listPredicates(ro)
	for _, f := range fs {
		for li, l := range naturalLoops(f) {
			n++
			cons := fmt.Sprintf("%s: loop#%d", c.P.FuncKey(f), li+1)
			progress := func(in ssa.Instruction) bool {
				call, ok := in.(*ssa.Call)
				if !ok {
					return false
				}
				cal := calleeOf(call)
				if cal != nil && must[cal] {
					return true
				}
				// a callee that must consume when entered on token K, called under the guard token() == K
				if cal != nil && c.inModule(cal) {
					if k, tr, ok := c.tokenGuardOf(call); ok && !c.consumerBetween(f, tr, call) && c.mustConsumeGiven(cal, k) {
						return true
					}
				}
				// the element parser call of the list loop: consumes because elements start only on tokens it consumes (C01.start-implies-consume)
				if cal == nil && f == ro.List {
					if _, isParam := call.Call.Value.(*ssa.Parameter); isParam {
						return true
					}
				}
				return false
			}
			// A cycle without progress can only exist if every conditional consumer on it failed
			// (a conditional consumer that succeeded has consumed). Fold the function with all
			// conditional consumers pinned to their failure value and look for a cycle along the
			// edges that stay executable.
			pinFail := func(v ssa.Value) (constant.Value, bool) {
				call, ok := v.(*ssa.Call)
				if !ok {
					return nil, false
				}
				cal := calleeOf(call)
				if cal == nil || must[cal] || !c.consumesOnSuccess(cal, 0) {
					return nil, false
				}
				if isBoolType(call.Type()) {
					return constant.MakeBool(false), true
				}
				if isPointerLike(call.Type()) {
					return constant.MakeUnknown(), true
				}
				return nil, false
			}
			fr := c.foldWith(f, 0, pinFail)
			edgeProgress := func(b *ssa.BasicBlock, k int) bool {
				return !fr.Edge[[2]int{b.Index, b.Succs[k].Index}]
			}
			path, stuck := l.cycleAvoiding(progress, edgeProgress)
			c.R.Check(rule, cons, c.P.InstrPos(l.Header.Instrs[0]), !stuck, "there is a cycle through this parser loop that consumes no token ("+blockPath(path)+"): the parser can hang")
		}
	}
	c.R.Floor(rule, 3)
	// start-implies-consume: every token accepted as the start of a list element is consumed by the element parser
	const r2 = "C01.start-implies-consume"
	if elemPred == nil {
		c.R.Undecided(r2, "list element predicate", c.P.Pos(ro.List.Pos()), "not found")
		return
	}
	starters, _ := c.exprStarters(ro)
	tab, _ := c.precTable(ro)
	e := int64(0)
	if len(ro.EntryPrec) > 0 {
		e = ro.EntryPrec[len(ro.EntryPrec)-1]
	}
	for _, s := range c.listSites(ro) {
		for _, k := range c.AllKinds() {
			v, ok := c.foldPredBool(elemPred, k, intLV(s.Ctx))
			cons := fmt.Sprintf("ctx%d:%s", s.Ctx, c.SKName(k))
			if !ok {
				c.R.Undecided(r2, cons, c.P.Pos(elemPred.Pos()), "element predicate does not fold")
				continue
			}
			if !v {
				c.R.Add(r2, cons, c.P.Pos(elemPred.Pos()), OK, "")
				continue
			}
			_, starts := starters[k]
			binop := tab[k] > e // consumed by the climbing loop after a placeholder operand
			assign, _ := c.foldKindMethod("IsAssignmentOperator", k)
			question := k == c.SK("SK_Question")
			comma := k == c.SK("SK_Comma") // array context: `[,]` - the separator is consumed by the list loop itself
			c.R.Check(r2, cons, c.P.Pos(elemPred.Pos()), starts || binop || assign || question || comma, c.SKName(k)+" is accepted as the start of a list element but the element parser consumes nothing on it: the list loop would spin on this token")
		}
	}
	c.R.Floor(r2, 100)
}
