#!/usr/bin/env python3
"""Regenerates MANIFEST.json from the table below and from `bin/fcheck -list`
(properties without an implemented check are listed under not_applicable)."""
import json, subprocess, sys

SETUP = "cd /verif/checker && GOFLAGS=-mod=vendor GOPROXY=off GOSUMDB=off GOTOOLCHAIN=local GOWORK=off go build -o /verif/bin/fcheck ."

TEXT = {
 "C01": ("Structural necessary conditions of parse totality, decided exhaustively over the source: deferred recover-to-error at the parse entry, diagnostics imply an error, every placeholder node has a diagnostic, node operand fields complete and never nil, end-of-input check on every path, every scanner and parser loop makes progress. Not decided: linear time and stack depth (quantitative).", "C01"),
 "C02": ("The precedence ladder is extracted by constant-folding the precedence function over all 55 token kinds and compared as an ordered partition; strict-greater climbing, operand layering of , = ?: binary prefix call member primary, start-of-element set, same-line guards and list flags are decided on SSA/CFG. Not decided: rejection of every underivable token sequence (language inclusion).", "C02"),
 "C03": ("Every may-panic site reachable from Resolve needs a recover-to-error at the entry; result shape; exhaustive node/operator dispatch with error defaults; structural recursion and bounded loops. Not decided: host functions, fatal runtime errors.", "C03"),
 "C04": ("Context128 fresh result numbers, operator -> Add/Sub/Mul/Quo/Rem wiring with operand order, no 64-bit-int -> float64 conversion on number entry paths, literal text -> SetString with error. Not decided: library rounding, final float64 accuracy.", "C04"),
 "C05": ("Truth vectors of the relational/equality predicates over Cmp's {-1,0,+1}, negation pairs, same-type gate of ===, byte-wise string operators. Not decided: Cmp value laws, NaN, mixed-kind coercions.", "C05"),
 "C06": ("Single truthiness function consulted by ! !! ?: && ||; selection operators return an operand unchanged with the right polarity; exactly one branch of ?: evaluated; dispatch covers every producible operator including ??. Not decided: special-number behaviour of Cmp/IsNaN.", "C06"),
 "C07": ("Sole `$`-guarded writer of the data map; left-before-right evaluation and ascending loops; decimal mutators only on fresh numbers; no store into caller data. Not decided: host-function effects.", "C07"),
 "C08": ("No package-level write outside init; tree immutable after parse; clock only in now/toDay; map-iteration order insensitivity. Not decided: equality of repeated results as values.", "C08"),
 "C09": ("No write to the shared tree or to package state from the concurrent entry points; sync.Map registry read-only after init; decimal contexts by value; dependency global-store scan. Not decided: schedules, stdlib/host races.", "C09"),
 "C10": ("Analysis dispatcher has an arm per node type; every value child visited and the callee position skipped; chain join; dedup; `$` filter; data map read only via identifiers/this. Not decided: semantic sufficiency.", "C10"),
 "C11": ("Single reflective call after all validation; IsVariadic; no double wrap of the null argument; context injection; target-type indices; kind tables agree. Not decided: numeric conversion results.", "C11"),
 "C12": ("Literal text -> SetString with error; identifier-after-number check on every path; exponent/separator diagnostics; separators stripped from the token text; number tokens only from the decimal scanner. Not decided: the library's parse of the text, leading zeros.", "C12"),
 "C13": ("Escape table extracted by folding the escape switch over runes; hex escape is a code-point-to-text conversion; both unterminated exits diagnosed; literal value returned verbatim. Not decided: byte-for-byte preservation as a value law.", "C13"),
 "C14": ("Operator lexeme table extracted from the scanner's peek tree and compared with the statement; longest-first; advance equals lexeme; Scan returns the token it stored; keyword table complete; class fast paths agree; range tables well-formed. Not decided: ES5 table membership, tiling as a value statement.", "C14"),
 "C15": ("Both range ends set for every node, start taken before the first consume; first diagnostic formatted into the error; rejection only through diagnostics; index guard equals index used; line-break set. Not decided: nesting/re-parse as value statements, column arithmetic.", "C15"),
 "C16": ("Builtin-then-data lookup order; null-safe member reader and the assert form; Map/Struct kind arms; normaliser on every result. Not decided: reflection value semantics.", "C16"),
 "C17": ("All 18 names registered; every parameter influences the result; no antonym wiring; first-occurrence suffix idiom absent. Not decided: the string laws themselves.", "C17"),
 "C18": ("All 15 names registered; parameter relevance; bit operators contain their machine operation; antonym wiring. Not decided: numeric results.", "C18"),
 "C19": ("All 14 names registered; argument order and pure pass-through into package time; unit of millSecond; error propagation of useTimezone. Not decided: calendar arithmetic.", "C19"),
 "C20": ("Which functions touch the data map and the auxiliary store; nil-map creation; no flow between the two stores. Not decided: replay of operation histories against a model.", "C20"),
}

TECH = {
 "C01": "static analysis: SSA/CFG must-pass-through, dominance and loop-progress analysis; interprocedural never-nil and must-consume fixpoints",
 "C02": "static analysis: constant-folding table extraction over the token enum (SCCP on go/ssa) + CFG dominance / call-structure layering rules",
}
DEFAULT_TECH = "static analysis: custom rules over the type-checked program and its go/ssa form (table extraction by constant folding, dominance, def-use origin, effects)"

def main():
    try:
        out = subprocess.run(["/verif/bin/fcheck", "-list"], capture_output=True, text=True, check=True).stdout.split()
    except Exception as e:
        print("cannot list implemented properties:", e, file=sys.stderr); sys.exit(1)
    impl = set(out)
    pending = json.load(open("/verif/pending.json")) if __import__("os").path.exists("/verif/pending.json") else {}
    checks, na = [], []
    for pid in sorted(TEXT):
        text, ref = TEXT[pid]
        if pid in impl and pid not in pending.get("withdrawn", {}):
            checks.append({
                "property_id": pid,
                "quick_cmd": f"bin/fcheck -prop {pid} -tier quick",
                "thorough_cmd": f"bin/fcheck -prop {pid} -tier thorough",
                "evidence_file": f"/verif/evidence/{pid}.json",
                "replay_cmd_template": "bin/fcheck -replay {path}",
                "engine": "fcheck",
                "level_claimed": {"category": "other", "text": text + " The check decides these structural clauses for every construct of the source (no sampling); it does not execute the repository.", "design_ref": f"DESIGN.md section 4, {ref}"},
                "level_note": "Trusted: go/types and go/ssa (x/tools v0.29.0); documented behaviour of the standard library and of ericlagergren/decimal; spec tables transcribed from properties.jsonl. Each rule is a necessary condition of the property, not the property.",
                "technique": TECH.get(pid, DEFAULT_TECH),
            })
        else:
            reason = pending.get("withdrawn", {}).get(pid) or "static check for this property is designed (DESIGN.md section 4) but not implemented yet in this tree; no other technique is substituted"
            na.append({"property_id": pid, "reason": reason})
    m = {
        "version": 1,
        "setup_cmd": SETUP,
        "hooks": {"guard": "verif", "enable": "none needed: the checks are static and read /repo's working tree as it is (no instrumentation, no build tag)", "baseline_off_cmd": "cd /repo && GOFLAGS=-mod=mod GOPROXY=off GOSUMDB=off go test -vet=off -count=1 ./...", "source_commits": [], "add_only": True},
        "engines": [{"name": "fcheck", "path": "/verif/checker", "serves_properties": sorted(c["property_id"] for c in checks), "kind_free_text": "repository-specific static analyser (go/packages + go/ssa): table extraction by constant folding, dominance / must-pass-through, def-use origin and effect rules; nothing under /repo is executed"}],
        "checks": checks,
        "not_applicable": na,
        "notes": "All claims are level `other`: structural necessary conditions decided exhaustively over the source (DESIGN.md). Genuine defects found are fixed in /repo as `fix:` commits (24 fixed entries) or recorded as known findings (3: C12 hex literal, C08 two `%v` operands that print addresses) in known_findings.json.",
    }
    json.dump(m, open("/verif/MANIFEST.json", "w"), indent=1)
    print("checks:", [c["property_id"] for c in checks], "n/a:", [n["property_id"] for n in na])

main()
