#!/usr/bin/env python3
"""refcheck.py <srcdir> <id>
Checks a behaviour-preserving refactoring (srcdir has patch.diff, README.md) against every check:
applies it to a scratch copy of /repo, requires build + baseline tests to pass, runs every property's
quick check on the copy. Any alarm is a FALSE ALARM of the checker. Stores the refactoring under
/verif/benign/<id>/ with meta.json (alarms listed)."""
import json, os, re, shutil, subprocess, sys, tempfile, time
from concurrent.futures import ThreadPoolExecutor
src, rid = sys.argv[1], sys.argv[2]
env = dict(os.environ, GOFLAGS="-mod=mod", GOPROXY="off", GOSUMDB="off", GOTOOLCHAIN="local")
env.pop("GOWORK", None)
d = tempfile.mkdtemp(prefix="ref_", dir="/tmp")
meta = {"id": rid, "checked_at": time.strftime("%Y-%m-%dT%H:%M:%SZ", time.gmtime())}
try:
    subprocess.run(["rsync", "-a", "--exclude", ".git", "/repo/", d + "/"], check=True)
    meta["repo_head"] = subprocess.run(["git", "-C", "/repo", "rev-parse", "--short", "HEAD"], capture_output=True, text=True).stdout.strip()
    a = subprocess.run(["patch", "-p1", "--no-backup-if-mismatch", "-i", os.path.join(os.path.abspath(src), "patch.diff")], cwd=d, capture_output=True, text=True)
    meta["patch_applies"] = a.returncode == 0
    if a.returncode != 0:
        print(f"{rid}: PATCH DOES NOT APPLY"); sys.exit(1)
    b = subprocess.run(["go", "build", "./..."], cwd=d, env=env, capture_output=True, text=True)
    t = subprocess.run(["go", "test", "-vet=off", "-count=1", "./..."], cwd=d, env=env, capture_output=True, text=True)
    meta["builds"], meta["tests_pass"] = b.returncode == 0, t.returncode == 0
    c = subprocess.run(["/verif/bin/fcheck", "-repo", d, "-all", "-no-evidence"], capture_output=True, text=True)
    alarms = {}
    cur = []
    for l in c.stdout.splitlines():
        m = re.match(r"property=(C\d+) .* violations=(\d+)", l)
        if m:
            if int(m.group(2)) > 0:
                alarms[m.group(1)] = [x[:260] for x in cur[:5]]
            cur = []
        elif l.startswith("  ") and ("VIOLATION" in l or "UNDECIDED" in l):
            cur.append(l.strip())
    if c.returncode not in (0, 1) or "property=" not in c.stdout:
        alarms["CHECKER"] = [c.stdout[-300:] + c.stderr[-300:]]
    meta["alarms"] = alarms
    out = os.path.join("/verif/benign", rid)
    os.makedirs(out, exist_ok=True)
    for f in ("patch.diff", "README.md"):
        if os.path.exists(os.path.join(src, f)) and os.path.abspath(os.path.join(src, f)) != os.path.abspath(os.path.join(out, f)):
            shutil.copy(os.path.join(src, f), os.path.join(out, f))
    json.dump(meta, open(os.path.join(out, "meta.json"), "w"), indent=1)
    ok = meta["builds"] and meta["tests_pass"]
    print(f"{rid}: valid={ok} alarms={list(alarms.keys())}")
    for p, ls in alarms.items():
        for l in ls[:3]:
            print("    ", p, l[:230])
finally:
    shutil.rmtree(d, ignore_errors=True)
