#!/usr/bin/env python3
"""Re-runs every stored behaviour-preserving refactoring (/verif/benign/*) against all checks (scratch copies)."""
import glob, os, subprocess, sys, json
from concurrent.futures import ThreadPoolExecutor
pref = sys.argv[1] if len(sys.argv) > 1 else ""
dirs = sorted(d for d in glob.glob("/verif/benign/*") if os.path.basename(d).startswith(pref) and os.path.exists(os.path.join(d, "patch.diff")))
def one(d):
    r = subprocess.run(["/verif/tools/refcheck.py", d, os.path.basename(d)], capture_output=True, text=True)
    return r.stdout.strip()
bad = 0
with ThreadPoolExecutor(5) as ex:
    for out in ex.map(one, dirs):
        first = out.splitlines()[0] if out else "?"
        print(first)
        if "alarms=[]" not in first:
            bad += 1
            for l in out.splitlines()[1:4]:
                print(l[:260])
print(f"refactorings with alarms: {bad}/{len(dirs)}")
