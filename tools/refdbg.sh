#!/bin/sh
# refdbg.sh <benign-or-seeded dir> <prop> : applies the patch to a scratch copy and runs one check with FCHECK_DEBUG
d=$(mktemp -d /tmp/dbg_XXXX)
rsync -a --exclude .git /repo/ $d/
(cd $d && patch -p1 --no-backup-if-mismatch -s -i /verif/$1/patch.diff)
mkdir -p $d/.inl
FCHECK_DEBUG=1 FCHECK_DUMP_INLINED=$d/.inl ${FCHECK_BIN:-/verif/bin/fcheck} -repo $d -prop $2 -no-evidence 2>&1 | cut -c1-4000
if [ -n "$KEEP" ]; then echo "kept $d"; else rm -rf $d; fi
