#!/usr/bin/env python3
"""twin.py <srcdir> <seed-id>
The repaired twin of a seeded change (8.6): <srcdir>/fixed.diff is the same refactoring with the slip put right.
It must apply to /repo's HEAD, build, pass the baseline tests AND the seed's own demo test; it is then stored and
checked as the behaviour-preserving refactoring benign/FIX-<seed-id> (refcheck.py)."""
import os, shutil, subprocess, sys, tempfile
src, sid = os.path.abspath(sys.argv[1]), sys.argv[2]
env = dict(os.environ, GOFLAGS="-mod=mod", GOPROXY="off", GOSUMDB="off", GOTOOLCHAIN="local")
env.pop("GOWORK", None)
if not os.path.exists(os.path.join(src, "fixed.diff")):
    print(f"FIX-{sid}: no fixed.diff"); sys.exit(1)
d = tempfile.mkdtemp(prefix="twin_", dir="/tmp")
o = tempfile.mkdtemp(prefix="twinout_", dir="/tmp")
try:
    subprocess.run(["rsync", "-a", "--exclude", ".git", "/repo/", d + "/"], check=True)
    a = subprocess.run(["patch", "-p1", "--no-backup-if-mismatch", "-i", os.path.join(src, "fixed.diff")], cwd=d, capture_output=True, text=True)
    if a.returncode != 0:
        print(f"FIX-{sid}: fixed.diff does not apply"); sys.exit(1)
    shutil.copy(os.path.join(src, "demo_test.go"), os.path.join(d, "zz_demo_test.go"))
    race = ["-race"] if sid.startswith("C09") else []
    t = subprocess.run(["go", "test", *race, "-vet=off", "-count=1", "./..."], cwd=d, env=env, capture_output=True, text=True)
    if t.returncode != 0:
        print(f"FIX-{sid}: the repaired tree fails the baseline tests or the demo test"); print(t.stdout[-800:]); sys.exit(1)
    shutil.copy(os.path.join(src, "fixed.diff"), os.path.join(o, "patch.diff"))
    open(os.path.join(o, "README.md"), "w").write(f"the seeded change {sid} with its slip repaired by its author (baseline tests and the seed's demo test pass)\n")
    r = subprocess.run(["python3", "/verif/tools/refcheck.py", o, "FIX-" + sid], capture_output=True, text=True)
    print(r.stdout.strip())
finally:
    shutil.rmtree(d, ignore_errors=True); shutil.rmtree(o, ignore_errors=True)
