#!/usr/bin/env python3
"""Re-runs every implemented check against every seeded change (in scratch copies of /repo) and
updates meta.json's caught_by. Usage: reseed.py [id-prefix]"""
import json, os, re, shutil, subprocess, sys, tempfile, glob
from concurrent.futures import ThreadPoolExecutor
pref = sys.argv[1] if len(sys.argv) > 1 else ""
props = subprocess.run(["/verif/bin/fcheck", "-list"], capture_output=True, text=True).stdout.split()
def one(sd):
    sid = os.path.basename(sd)
    meta = json.load(open(os.path.join(sd, "meta.json")))
    d = tempfile.mkdtemp(prefix="rs_", dir="/tmp")
    try:
        subprocess.run(["rsync", "-a", "--exclude", ".git", "/repo/", d + "/"], check=True)
        a = subprocess.run(["patch", "-p1", "--no-backup-if-mismatch", "-i", os.path.join(sd, "patch.diff")], cwd=d, capture_output=True, text=True)
        if a.returncode != 0:
            return sid, meta["property"], None, "PATCH DOES NOT APPLY on current HEAD"
        caught = {}
        c = subprocess.run(["/verif/bin/fcheck", "-repo", d, "-all", "-no-evidence"], capture_output=True, text=True)
        cur = []
        for l in c.stdout.splitlines():
            m = re.match(r"property=(C\d+) .* violations=(\d+)", l)
            if m:
                if int(m.group(2)) > 0:
                    caught[m.group(1)] = [x[:240] for x in cur[:4]]
                cur = []
            elif l.startswith("  ") and ("VIOLATION" in l or "UNDECIDED" in l):
                cur.append(l.strip())
        meta["caught_by"] = caught
        meta["caught_by_own_property_check"] = meta["property"] in caught
        json.dump(meta, open(os.path.join(sd, "meta.json"), "w"), indent=1)
        return sid, meta["property"], caught, ""
    finally:
        shutil.rmtree(d, ignore_errors=True)
dirs = sorted(d for d in glob.glob("/verif/seeded/*") if os.path.basename(d).startswith(pref) and os.path.exists(os.path.join(d, "meta.json")))
with ThreadPoolExecutor(8) as ex:
    res = list(ex.map(one, dirs))
own = 0
for sid, prop, caught, err in res:
    if err:
        print(f"{sid:12s} {err}"); continue
    mark = "OWN" if prop in caught else ("other" if caught else "MISSED")
    own += prop in caught
    first = ""
    if prop in caught and caught[prop]:
        first = caught[prop][0][:150]
    print(f"{sid:12s} {mark:7s} {sorted(caught.keys())} {first}")
print(f"caught by own property's check: {own}/{len(res)}")
