#!/usr/bin/env python3
"""refmut.py <benign-id> <file> <old> <new> <prop>...: apply a stored refactoring to a scratch copy of /repo,
then a one-line mutation on top of it, and run the named checks: the rules must still see through the refactored form."""
import os, shutil, subprocess, sys, tempfile
rid, f, old, new, props = sys.argv[1], sys.argv[2], sys.argv[3], sys.argv[4], sys.argv[5:]
d = tempfile.mkdtemp(prefix="rm_", dir="/tmp")
try:
    subprocess.run(["rsync", "-a", "--exclude", ".git", "/repo/", d + "/"], check=True)
    a = subprocess.run(["patch", "-p1", "--no-backup-if-mismatch", "-i", f"/verif/benign/{rid}/patch.diff"], cwd=d, capture_output=True, text=True)
    if a.returncode != 0:
        print("refactoring does not apply"); sys.exit(2)
    p = os.path.join(d, f); s = open(p).read()
    if old not in s:
        print("OLD NOT FOUND"); sys.exit(2)
    open(p, "w").write(s.replace(old, new, 1))
    env = dict(os.environ, GOFLAGS="-mod=mod", GOPROXY="off", GOSUMDB="off", GOTOOLCHAIN="local"); env.pop("GOWORK", None)
    b = subprocess.run(["go", "build", "./..."], cwd=d, env=env, capture_output=True, text=True)
    if b.returncode != 0:
        print("BUILD FAILS:", b.stderr[:400]); sys.exit(2)
    for pr in props:
        r = subprocess.run(["/verif/bin/fcheck", "-repo", d, "-prop", pr, "-no-evidence"], capture_output=True, text=True)
        lines = [l for l in r.stdout.splitlines() if not l.startswith("VIOLATION")]
        print(f"--- {pr}: exit {r.returncode}")
        for l in lines[:5]:
            print("   ", l[:260])
finally:
    shutil.rmtree(d, ignore_errors=True)
