#!/usr/bin/env python3
"""renref.py [prefix]: apply each stored behaviour-preserving refactoring, then the mass rename of unexported
identifiers (tools/rename.sh), and run every check: any report is a false alarm."""
import os, shutil, subprocess, sys, tempfile
from concurrent.futures import ThreadPoolExecutor
pref = sys.argv[1] if len(sys.argv) > 1 else ""
ids = sorted(d for d in os.listdir("/verif/benign") if d.startswith(pref))
env = dict(os.environ, GOFLAGS="-mod=mod", GOPROXY="off", GOSUMDB="off", GOTOOLCHAIN="local"); env.pop("GOWORK", None)
props = subprocess.run(["/verif/bin/fcheck", "-list"], capture_output=True, text=True).stdout.split()
def one(rid):
    d = tempfile.mkdtemp(prefix="rr_", dir="/tmp")
    try:
        subprocess.run(["rsync", "-a", "--exclude", ".git", "/repo/", d + "/"], check=True)
        a = subprocess.run(["patch", "-p1", "--no-backup-if-mismatch", "-i", f"/verif/benign/{rid}/patch.diff"], cwd=d, capture_output=True, text=True)
        if a.returncode != 0:
            return rid, "noapply", []
        r = subprocess.run(["bash", "/verif/tools/rename.sh", d], capture_output=True, text=True, env=env)
        t = subprocess.run(["go", "test", "-vet=off", "-count=1", "./..."], cwd=d, env=env, capture_output=True, text=True)
        if r.returncode != 0 or t.returncode != 0:
            return rid, "invalid-after-rename", []
        alarms = []
        c = subprocess.run(["/verif/bin/fcheck", "-repo", d, "-all", "-no-evidence"], capture_output=True, text=True)
        cur = []
        import re
        for l in c.stdout.splitlines():
            m = re.match(r"property=(C\d+) .* violations=(\d+)", l)
            if m:
                if int(m.group(2)) > 0:
                    alarms.append(m.group(1) + ": " + (cur[0][:200] if cur else ""))
                cur = []
            elif l.startswith("  "):
                cur.append(l.strip())
        return rid, "ok", alarms
    finally:
        shutil.rmtree(d, ignore_errors=True)
with ThreadPoolExecutor(max_workers=6) as ex:
    res = list(ex.map(one, ids))
bad = 0
for rid, st, alarms in res:
    if st != "ok" or alarms:
        print(rid, st)
        for a in alarms:
            print("    ", a)
    if alarms:
        bad += 1
print(f"refactoring+rename variants with alarms: {bad}/{sum(1 for r in res if r[1]=='ok')}")
