#!/usr/bin/env python3
"""ingest.py <srcdir> <id> <property>
Verifies a seeded change produced by a sub-agent (srcdir has patch.diff, demo_test.go, README.md)
against the CURRENT /repo HEAD in a scratch copy, runs every implemented check on it, and stores it
under /verif/seeded/<id>/ with meta.json. Nothing is applied to /repo."""
import json, os, shutil, subprocess, sys, tempfile, time
src, sid, prop = sys.argv[1], sys.argv[2], sys.argv[3]
env = dict(os.environ, GOFLAGS="-mod=mod", GOPROXY="off", GOSUMDB="off", GOTOOLCHAIN="local")
env.pop("GOWORK", None)
RACE = ["-race"] if os.environ.get("INGEST_RACE") else []
def run(cmd, cwd, timeout=600):
    if RACE and cmd[:2] == ["go", "test"]:
        cmd = cmd[:2] + RACE + cmd[2:]
    return subprocess.run(cmd, cwd=cwd, env=env, capture_output=True, text=True, timeout=timeout)
d = tempfile.mkdtemp(prefix="ing_", dir="/tmp")
meta = {"id": sid, "property": prop, "ingested_at": time.strftime("%Y-%m-%dT%H:%M:%SZ", time.gmtime())}
try:
    subprocess.run(["rsync", "-a", "--exclude", ".git", "/repo/", d + "/"], check=True)
    head = subprocess.run(["git", "-C", "/repo", "rev-parse", "--short", "HEAD"], capture_output=True, text=True).stdout.strip()
    meta["repo_head"] = head
    # clean: demo passes
    shutil.copy(os.path.join(src, "demo_test.go"), os.path.join(d, "demo_test.go"))
    r = run(["go", "test", "-vet=off", "-count=1", "-timeout", "120s", "./..."], d)
    meta["demo_passes_on_clean"] = r.returncode == 0
    if r.returncode != 0:
        print("demo does NOT pass on clean HEAD:\n", r.stdout[-1500:], r.stderr[-500:])
    os.remove(os.path.join(d, "demo_test.go"))
    # apply
    a = subprocess.run(["patch", "-p1", "--no-backup-if-mismatch", "-i", os.path.join(src, "patch.diff")], cwd=d, capture_output=True, text=True)
    meta["patch_applies"] = a.returncode == 0
    if a.returncode != 0:
        print("PATCH DOES NOT APPLY:", a.stdout, a.stderr)
        sys.exit(1)
    b = run(["go", "build", "./..."], d)
    meta["builds"] = b.returncode == 0
    t = run(["go", "test", "-vet=off", "-count=1", "-timeout", "120s", "./..."], d)
    meta["existing_tests_pass_with_change"] = t.returncode == 0
    shutil.copy(os.path.join(src, "demo_test.go"), os.path.join(d, "demo_test.go"))
    r = run(["go", "test", "-vet=off", "-count=1", "-timeout", "120s", "-run", "Demo|.", "./..."], d)
    meta["demo_fails_with_change"] = r.returncode != 0
    os.remove(os.path.join(d, "demo_test.go"))
    # checks
    props = subprocess.run(["/verif/bin/fcheck", "-list"], capture_output=True, text=True).stdout.split()
    caught = {}
    for p in props:
        c = subprocess.run(["/verif/bin/fcheck", "-repo", d, "-prop", p, "-no-evidence"], capture_output=True, text=True)
        if c.returncode != 0:
            lines = [l.strip() for l in c.stdout.splitlines() if l.startswith("  ") and ("VIOLATION" in l or "UNDECIDED" in l)]
            caught[p] = [l[:240] for l in lines[:4]]
    meta["caught_by"] = caught
    meta["caught_by_own_property_check"] = prop in caught
    meta["ran"] = ["go build ./...", "go test -vet=off -count=1 ./... (with change: existing suite)", "go test with demo_test.go (with and without change)", "bin/fcheck -repo <scratch> -prop <each> -no-evidence"]
    out = os.path.join("/verif/seeded", sid)
    os.makedirs(out, exist_ok=True)
    for f in ("patch.diff", "demo_test.go", "README.md"):
        if os.path.exists(os.path.join(src, f)):
            shutil.copy(os.path.join(src, f), os.path.join(out, f))
    if os.path.exists(os.path.join(src, "README.md")):
        meta["needs_to_manifest"] = open(os.path.join(src, "README.md")).read()[:1200]
    json.dump(meta, open(os.path.join(out, "meta.json"), "w"), indent=1)
    ok = meta["demo_passes_on_clean"] and meta["builds"] and meta["existing_tests_pass_with_change"] and meta["demo_fails_with_change"]
    print(f"{sid}: valid={ok} caught_by={list(caught.keys())}")
    for p, ls in caught.items():
        for l in ls[:2]:
            print("    ", p, l[:200])
finally:
    shutil.rmtree(d, ignore_errors=True)
