set -e
cd "$1"
for pair in pos:cursorQ end:limitQ startPos:triviaStartQ tokenPos:lexemeStartQ tokenValue:lexemeQ tokenFlags:flagBitsQ onError:reportQ text:srcBytesQ this:dataMapQ value:auxStoreQ parseDiagnostics:diagListQ fields:namesQ newDecimalBig:newNumberQ convToBasicNumber:numberToKindQ getIdentifierToken:identOrKeywordQ errorAtPosition:reportAtQ keywords:keywordKindsQ tokens:tokenTextsQ basicNumberKind:numericKindsQ unicodeES5IdentifierStart:esStartQ unicodeES5IdentifierPart:esPartQ innerMap:builtinsQ referenceResovle:fieldCollectorQ isIdentifierStart:isIdStartQ isIdentifierPart:isIdPartQ scanNumberFragment:digitsRunQ; do
  a=${pair%%:*}; b=${pair##*:}
  gofmt -r "$a -> $b" -w *.go
done
