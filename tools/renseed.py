#!/usr/bin/env python3
"""renseed.py [prefix]: apply each stored seeded change to a scratch copy, then rename ~25 unexported identifiers
(fields, functions, globals, one type) consistently with gofmt -r, and run the change's own property check:
the rules must still find the roles by structure and report the change."""
import json, os, shutil, subprocess, sys, tempfile
from concurrent.futures import ThreadPoolExecutor
pref = sys.argv[1] if len(sys.argv) > 1 else ""
ids = sorted(d for d in os.listdir("/verif/seeded") if d.startswith(pref))
env = dict(os.environ, GOFLAGS="-mod=mod", GOPROXY="off", GOSUMDB="off", GOTOOLCHAIN="local"); env.pop("GOWORK", None)
def one(sid):
    meta = json.load(open(f"/verif/seeded/{sid}/meta.json"))
    if meta.get("status", "").startswith("neutralised"):
        return sid, "skip", ""
    d = tempfile.mkdtemp(prefix="rs_", dir="/tmp")
    try:
        subprocess.run(["rsync", "-a", "--exclude", ".git", "/repo/", d + "/"], check=True)
        a = subprocess.run(["patch", "-p1", "--no-backup-if-mismatch", "-i", f"/verif/seeded/{sid}/patch.diff"], cwd=d, capture_output=True, text=True)
        if a.returncode != 0:
            return sid, "noapply", ""
        r = subprocess.run(["bash", "/verif/tools/rename.sh", d], capture_output=True, text=True, env=env)
        b = subprocess.run(["go", "build", "./..."], cwd=d, env=env, capture_output=True, text=True)
        if r.returncode != 0 or b.returncode != 0:
            return sid, "nobuild", (r.stderr + b.stderr)[:200]
        c = subprocess.run(["/verif/bin/fcheck", "-repo", d, "-prop", meta["property"], "-no-evidence"], capture_output=True, text=True)
        lines = [l.strip() for l in c.stdout.splitlines() if l.startswith("  ")]
        return sid, "caught" if c.returncode == 1 else "MISSED", (lines[0][:160] if lines else "")
    finally:
        shutil.rmtree(d, ignore_errors=True)
with ThreadPoolExecutor(max_workers=8) as ex:
    res = list(ex.map(one, ids))
n = sum(1 for r in res if r[1] == "caught"); tot = sum(1 for r in res if r[1] in ("caught", "MISSED"))
for sid, st, msg in res:
    if st != "caught":
        print(f"{sid:12s} {st} {msg}")
print(f"caught after renaming: {n}/{tot}")
