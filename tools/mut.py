#!/usr/bin/env python3
"""Quick mutation probe: mut.py <file> <old> <new> <prop> [<prop>...]
Copies /repo to a scratch dir, replaces the first occurrence of <old> by <new> in <file>,
checks that it builds, whether the baseline tests still pass, and runs the named checks on it."""
import os, shutil, subprocess, sys, tempfile
f, old, new, props = sys.argv[1], sys.argv[2], sys.argv[3], sys.argv[4:]
d = tempfile.mkdtemp(prefix="mut_", dir="/tmp")
try:
    subprocess.run(["rsync", "-a", "--exclude", ".git", "/repo/", d + "/"], check=True)
    p = os.path.join(d, f)
    s = open(p).read()
    if old not in s:
        print("OLD NOT FOUND"); sys.exit(2)
    s = s.replace(old, new, 1)
    open(p, "w").write(s)
    env = dict(os.environ, GOFLAGS="-mod=mod", GOPROXY="off", GOSUMDB="off", GOTOOLCHAIN="local")
    env.pop("GOWORK", None)
    b = subprocess.run(["go", "build", "./..."], cwd=d, env=env, capture_output=True, text=True)
    if b.returncode != 0:
        print("BUILD FAILS:", b.stderr[:400]); sys.exit(2)
    t = subprocess.run(["go", "test", "-vet=off", "-count=1", "./..."], cwd=d, env=env, capture_output=True, text=True)
    print("tests:", "PASS" if t.returncode == 0 else "FAIL (visible to the suite)")
    for pr in props:
        r = subprocess.run(["/verif/bin/fcheck", "-repo", d, "-prop", pr, "-no-evidence"], capture_output=True, text=True)
        lines = [l for l in r.stdout.splitlines() if not l.startswith("VIOLATION")]
        print(f"--- {pr}: exit {r.returncode}")
        for l in lines[:6]:
            print("   ", l[:300])
finally:
    shutil.rmtree(d, ignore_errors=True)
