#!/bin/sh
# repair.sh start <seed-id>  : scratch copy of /repo with the seeded change applied, at /tmp/rep_<seed-id>
# repair.sh done  <seed-id>  : after the slip has been repaired by hand there: the repaired tree must build, pass the
#                              baseline tests AND the seed's own demo test; it is then stored as the refactoring
#                              benign/FIX-<seed-id> (diff against /repo) and run through refcheck.py
export GOFLAGS=-mod=mod GOPROXY=off GOSUMDB=off GOTOOLCHAIN=local
id=$2; d=/tmp/rep_$id
case $1 in
start)
  rm -rf $d; mkdir -p $d; rsync -a --exclude .git /repo/ $d/
  (cd $d && patch -p1 --no-backup-if-mismatch -s -i /verif/seeded/$id/patch.diff) ;;
done)
  demo=$(ls /verif/seeded/$id/demo*_test.go /verif/seeded/$id/demo/*_test.go 2>/dev/null | head -1)
  cp $demo $d/zz_demo_test.go
  race=""; case $id in C09*) race="-race";; esac
  (cd $d && gofmt -l . ; go build ./... && go test $race -vet=off -count=1 ./... >/tmp/rep_$id.log 2>&1) || { echo "REPAIRED TREE FAILS build/tests/demo"; tail -20 /tmp/rep_$id.log; exit 1; }
  rm $d/zz_demo_test.go
  o=/tmp/repout_$id; rm -rf $o; mkdir -p $o
  (cd /tmp && diff -ruN --exclude .git --exclude OUT /repo $d | sed -e "s#^--- /repo/#--- a/#" -e "s#^+++ $d/#+++ b/#" -e "s#^diff -ruN .*#&#" ) > $o/patch.diff
  echo "the seeded change $id with its slip repaired by hand (demo test of the seed passes)" > $o/README.md
  python3 /verif/tools/refcheck.py $o FIX-$id
  rm -rf $o $d /tmp/rep_$id.log ;;
esac
