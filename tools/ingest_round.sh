#!/bin/bash
# ing13.sh Cnn... : ingest round-13 seeds and their twins
export GOFLAGS=-mod=mod GOPROXY=off GOSUMDB=off GOTOOLCHAIN=local; unset GOWORK
for c in "$@"; do
  for m in A B; do
    src=/tmp/w14_$c/OUT/mut$m
    [ -f $src/patch.diff ] || { echo "$c-r14mut$m: no patch"; continue; }
    r=""; [ $c = C09 ] && r=1
    INGEST_RACE=$r python3 /verif/tools/ingest.py $src $c-r14mut$m $c 2>&1 | cut -c1-260
    cp $src/fixed.diff /verif/seeded/$c-r14mut$m/fixed.diff 2>/dev/null
    python3 /verif/tools/twin.py $src $c-r14mut$m 2>&1 | cut -c1-260
  done
done
