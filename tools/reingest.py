#!/usr/bin/env python3
"""reingest.py [prefix]: re-validate every stored seeded change against the CURRENT /repo HEAD
(patch applies, builds, existing tests pass, demo passes clean / fails with the change) and refresh
meta.json (which checks catch it). Runs ingest.py on a temporary copy of each seeded/<id>/."""
import json, os, shutil, subprocess, sys, tempfile
from concurrent.futures import ThreadPoolExecutor
pref = sys.argv[1] if len(sys.argv) > 1 else ""
ids = sorted(d for d in os.listdir("/verif/seeded") if d.startswith(pref) and os.path.isdir("/verif/seeded/" + d))
def one(sid):
    src = "/verif/seeded/" + sid
    meta = json.load(open(src + "/meta.json"))
    t = tempfile.mkdtemp(prefix="re_", dir="/tmp")
    try:
        for f in ("patch.diff", "demo_test.go", "README.md"):
            if os.path.exists(src + "/" + f):
                shutil.copy(src + "/" + f, t + "/" + f)
        env = dict(os.environ)
        if meta.get("race") or meta["property"] == "C09":
            env["INGEST_RACE"] = "1"
        r = subprocess.run(["python3", "/verif/tools/ingest.py", t, sid, meta["property"]], capture_output=True, text=True, env=env)
        m2 = json.load(open(src + "/meta.json"))
        for k in ("race", "neutralised", "note", "rebased", "status"):
            if k in meta and k not in m2:
                m2[k] = meta[k]
        json.dump(m2, open(src + "/meta.json", "w"), indent=1)
        flags = [k for k in ("demo_passes_on_clean", "patch_applies", "builds", "existing_tests_pass_with_change", "demo_fails_with_change") if not m2.get(k)]
        return sid, flags, m2.get("caught_by_own_property_check"), sorted(m2.get("caught_by", {}))
    finally:
        shutil.rmtree(t, ignore_errors=True)
with ThreadPoolExecutor(max_workers=6) as ex:
    res = list(ex.map(one, ids))
own = 0
for sid, flags, o, by in res:
    own += bool(o)
    print(f"{sid:12s} {'OWN' if o else 'other' if by else 'MISSED':6s} {by} {'INVALID: ' + ','.join(flags) if flags else ''}")
print(f"valid and caught by own property's check: {own}/{len(res)}")
