#!/usr/bin/env python3
"""Generates selftest/corpus.json: edit scripts (anchor text -> replacement) applied in memory to the
current /repo sources by `fcheck -selftest` / the thorough tier. mutant = breaks a property, the named
rule must report it; benign = behaviour-preserving, every listed check must stay silent."""
import json, os

E = []

def mut(name, props, expect, *edits, note=""):
    E.append({"name": name, "kind": "mutant", "props": props, "expect": expect,
              "edits": [{"file": f, "old": o, "new": n} for (f, o, n) in edits], "note": note})

def ben(name, props, *edits, note=""):
    E.append({"name": name, "kind": "benign", "props": props,
              "edits": [{"file": e[0], "old": e[1], "new": e[2], **({"all": True} if len(e) > 3 and e[3] else {})} for e in edits], "note": note})

P, S, R, RS, U, T = "parser.go", "scanner.go", "runner.go", "resolve.go", "utilities.go", "types.go"

# ---------------- C01 ----------------
mut("c01-tilde-no-advance", ["C01"], "C01.scanner-progress", (S, "\t\tcase '~':\n\t\t\ts.pos += size\n", "\t\tcase '~':\n"))
mut("c01-invalid-char-no-advance-on-rune-error", ["C01"], "C01.scanner-progress", (S, "\t\t\ts.error(M_Invalid_character)\n\t\t\ts.pos += size", "\t\t\ts.error(M_Invalid_character)\n\t\t\tif ch != utf8.RuneError {\n\t\t\t\ts.pos += size\n\t\t\t}"))
mut("c01-skip-token-without-consuming", ["C01"], "C01.parser-progress", (P, "\tp.errorAtCurrentToken(parsingContextErrors(kind))\n\tp.nextToken()\n\treturn false", "\tp.errorAtCurrentToken(parsingContextErrors(kind))\n\treturn false"))
mut("c01-placeholder-without-diagnostic", ["C01"], "C01.placeholder-has-diagnostic", (P, "\tif diagnosticMessage == nil {\n\t\tdiagnosticMessage = M_Identifier_expected\n\t}\n\tp.errorAtCurrentToken(diagnosticMessage)", "\tif diagnosticMessage == nil {\n\t\tdiagnosticMessage = M_Identifier_expected\n\t\tp.errorAtCurrentToken(diagnosticMessage)\n\t}"))
mut("c01-recover-only-without-source", ["C01"], "C01.recover", (P, "\t\tcapture := recover()\n\t\tif capture != nil {", "\t\tcapture := recover()\n\t\tif capture != nil && source == nil {"))
mut("c01-no-recover", ["C01"], "C01.recover", (P, "\t\tcapture := recover()\n", "\t\tvar capture interface{}\n"))
mut("c01-eof-check-on-position", ["C01", "C15"], "eof-check", (P, "\tif p.token() != SK_EndOfFile {\n\t\tp.errorAtCurrentToken(M_0_expected, \"end of text\")\n\t}", "\tif p.scanner.pos < p.scanner.end {\n\t\tp.errorAtCurrentToken(M_0_expected, \"end of text\")\n\t}"))
mut("c01-eof-check-dropped", ["C01"], "C01.eof-check", (P, "\tif p.token() != SK_EndOfFile {\n\t\tp.errorAtCurrentToken(M_0_expected, \"end of text\")\n\t}\n", ""))
mut("c01-diagnostics-not-copied", ["C01"], "C01.diag-implies-error", (P, "\tp.sourceCode.Diagnostics = p.parseDiagnostics\n", ""))
mut("c01-diagnostics-ignored-by-entry", ["C01"], "C01.diag-implies-error", (P, "\t\tif source != nil && len(source.Diagnostics) > 0 {\n\t\t\terr = errors.New(FormatDiagnostic(source, source.Diagnostics[0]))\n\t\t}\n", ""))
mut("c01-conditional-missing-branch", ["C01"], "C01.fields-complete", (P, "\tnode.WhenFalse = p.parseAssignmentExpressionOrHigher()\n", "\tif p.token() != SK_EndOfFile {\n\t\tnode.WhenFalse = p.parseAssignmentExpressionOrHigher()\n\t}\n"))
mut("c01-unicode-lookup-never-terminates", ["C01"], "C01.loop-progress", (S, "\tfor lo+1 < hi {", "\tfor lo <= hi {"))
mut("c01-binary-search-no-shrink", ["C01"], "C01.loop-progress", (S, "\t\t\thigh = middle - 1", "\t\t\thigh = middle"))
mut("c01-escape-no-advance", ["C01"], "C01.loop-progress", (S, "func (s *Scanner) scanEscapeSequence() string {\n\ts.pos++\n", "func (s *Scanner) scanEscapeSequence() string {\n"))
mut("c01-scan-error-handler-dropped", ["C01"], "C01.scan-error-binding", (P, "\tp.scanner = CreateScanner(p.sourceText, p.scanError)", "\tp.scanner = CreateScanner(p.sourceText, nil)"))
mut("c01-argument-list-unguarded", ["C01"], "C01.never-nil", (P, "\t\tif p.token() == SK_OpenParen && !p.scanner.HasPrecedingLineBreak() {\n\t\t\tvar callExpr", "\t\tif p.token() == SK_OpenParen || p.token() == SK_OpenBracket {\n\t\t\tvar callExpr"))

# ---------------- C02 ----------------
mut("c02-relational-on-equality-level", ["C02"], "C02.ladder", (P, "\t\tSK_GreaterThanEquals:\n\t\treturn 7", "\t\tSK_GreaterThanEquals:\n\t\treturn 6"))
mut("c02-swap-bitor-bitxor", ["C02"], "C02.ladder", (P, "\tcase SK_Bar:\n\t\treturn 3\n\tcase SK_Caret:\n\t\treturn 4", "\tcase SK_Bar:\n\t\treturn 4\n\tcase SK_Caret:\n\t\treturn 3"))
mut("c02-right-assoc-by-geq", ["C02"], "C02.left-assoc", (P, "var consumeCurrentOperator = newPrecedence > precedence", "var consumeCurrentOperator = newPrecedence >= precedence"))
mut("c02-right-operand-lower-precedence", ["C02"], "C02.left-assoc", (P, "p.parseBinaryExpression(newPrecedence))\n\t}", "p.parseBinaryExpression(newPrecedence-1))\n\t}"))
mut("c02-prefix-operand-as-binary", ["C02"], "C02.layers", (P, "\tnode.Operator = p.parseToken()\n\tnode.Operand = p.parseSimpleUnaryExpression()", "\tnode.Operator = p.parseToken()\n\tnode.Operand = p.parseBinaryExpression(0)"))
mut("c02-prefix-operand-no-nesting", ["C02"], "C02.layers", (P, "\tnode.Operator = p.parseToken()\n\tnode.Operand = p.parseSimpleUnaryExpression()", "\tnode.Operator = p.parseToken()\n\tnode.Operand = p.parseLeftHandSideExpressionOrHigher()"))
mut("c02-assignment-left-assoc", ["C02"], "C02.layers", (P, "return p.makeBinaryExpression(expr, p.parseToken(), p.parseAssignmentExpressionOrHigher())", "return p.makeBinaryExpression(expr, p.parseToken(), p.parseConditionalExpression(p.parseBinaryExpression(0)))"))
mut("c02-conditional-branch-binary-only", ["C02"], "C02.layers", (P, "\tnode.WhenTrue = p.parseAssignmentExpressionOrHigher()", "\tnode.WhenTrue = p.parseBinaryExpression(0)"))
mut("c02-comma-operands-full-expression", ["C02"], "C02.layers", (P, "\t\texpr = p.makeBinaryExpression(expr, operatorToken, p.parseAssignmentExpressionOrHigher())", "\t\texpr = p.makeBinaryExpression(expr, operatorToken, p.parseExpression())"))
mut("c02-paren-no-comma", ["C02"], "C02.layers", (P, "\tp.want(SK_OpenParen)\n\tnode.Expression = p.parseExpression()", "\tp.want(SK_OpenParen)\n\tnode.Expression = p.parseAssignmentExpressionOrHigher()"))
mut("c02-tilde-not-start-of-element", ["C02"], "C02.start-set", (P, "\tcase SK_Plus,\n\t\tSK_Minus,\n\t\tSK_Tilde,\n\t\tSK_Exclamation,\n\t\tSK_ExclamationExclamation,\n\t\tSK_LessThan:", "\tcase SK_Plus,\n\t\tSK_Minus,\n\t\tSK_Exclamation,\n\t\tSK_ExclamationExclamation,\n\t\tSK_LessThan:"))
mut("c02-call-paren-line-check-dropped", ["C02", "C14"], "C02.same-line", (P, "if p.token() == SK_OpenParen && !p.scanner.HasPrecedingLineBreak() {", "if p.token() == SK_OpenParen {"))
mut("c02-member-line-check-dropped", ["C02", "C14"], "C02.same-line", (P, "func (p *Parser) parseMemberExpressionRest(expr Expression) Expression {\n\tfor {\n\t\t// Must on same line\n\t\tif p.scanner.HasPrecedingLineBreak() {\n\t\t\tbreak\n\t\t}\n", "func (p *Parser) parseMemberExpressionRest(expr Expression) Expression {\n\tfor {\n"))
mut("c02-both-selector-tokens", ["C02"], "C02.one-selector-token", (P, "\t\tvar exclamationDot *TokenNode\n\t\tif dotToken == nil {\n\t\t\texclamationDot = p.gotToken(SK_ExclamationDot)\n\t\t}", "\t\texclamationDot := p.gotToken(SK_ExclamationDot)"))
mut("c02-trailing-comma-allowed-in-arrays", ["C02"], "C02.lists", (P, "p.parseArgumentOrArrayLiteralElement, false)", "p.parseArgumentOrArrayLiteralElement, true)"))
mut("c02-array-closer-not-expected", ["C02"], "C02.lists", (P, "\tnode.Elements = list\n\tp.want(SK_CloseBracket)", "\tnode.Elements = list\n\tp.got(SK_CloseBracket)"))
mut("c02-question-question-arm-dropped", ["C02", "C06"], "dispatch", (R, "\tcase SK_QuestionQuestion: // ??\n\t\treturn r.resolveQuestionQuestionBinaryExpression(v1, v2)\n", ""))

# ---------------- C03 ----------------
mut("c03-no-recover", ["C03"], "C03.recover", (R, "\t\tif capture := recover(); capture != nil {", "\t\tif capture := interface{}(nil); capture != nil {"))
mut("c03-recover-keeps-nil-error", ["C03"], "C03.recover", (R, "\t\t\tvalue = nil\n\t\t\terr = fmt.Errorf(\"formula evaluation failed: %v\", capture)", "\t\t\tvalue = nil\n\t\t\t_ = fmt.Errorf(\"formula evaluation failed: %v\", capture)"))
mut("c03-unknown-node-is-null", ["C03"], "C03.exhaustive-dispatch", (R, "\tdefault:\n\t\treturn nil, errors.New(\"unknown expression type\")\n\t}\n\tif err != nil {", "\tdefault:\n\t\treturn nil, nil\n\t}\n\tif err != nil {"))
mut("c03-typeof-arm-dropped", ["C03"], "C03.exhaustive-dispatch", (R, "\tcase *TypeOfExpression:\n\t\tres, err = r.resolveTypeofExpression(ctx, n)\n", ""))
mut("c03-unknown-prefix-is-null", ["C03"], "C03.exhaustive-dispatch", (R, "\treturn nil, errors.New(\"unknown unary expression\")", "\treturn nil, nil"))
mut("c03-value-with-error", ["C03"], "C03.result-shape", (R, "\tif err != nil {\n\t\treturn nil, err\n\t}\n\treturn formatInput(res)", "\tif err != nil {\n\t\treturn res, err\n\t}\n\treturn formatInput(res)"))
mut("c03-evaluate-same-node-again", ["C03"], "C03.structural-recursion", (R, "func (r *Runner) resolveParenthesizedExpression(ctx context.Context, expr *ParenthesizedExpression) (interface{}, error) {\n\tv, err := r.resolve(ctx, expr.Expression)", "func (r *Runner) resolveParenthesizedExpression(ctx context.Context, expr *ParenthesizedExpression) (interface{}, error) {\n\tv, err := r.resolve(ctx, expr)"))
mut("c03-argument-loop-without-step", ["C03"], "C03.bounded-loops", (R, "\t\tfor i := 0; i < expr.Arguments.Len(); i++ {\n\t\t\tav, err := r.resolve(ctx, expr.Arguments.At(i))", "\t\tfor i := 0; i < expr.Arguments.Len(); {\n\t\t\tav, err := r.resolve(ctx, expr.Arguments.At(i))"))

# ---------------- C04 ----------------
mut("c04-sub-operands-swapped", ["C04"], "C04.operator-wiring", (R, "return newDecimalBig().Sub(n1, n2), nil", "return newDecimalBig().Sub(n2, n1), nil"))
mut("c04-mul-in-default-context", ["C04"], "C04.operator-wiring", (R, "return newDecimalBig().Mul(n1, n2), nil", "return decimal.New(0, 0).Mul(n1, n2), nil"))
mut("c04-div-by-quoint", ["C04"], "C04.operator-wiring", (R, "return newDecimalBig().Quo(n1, n2), nil", "return newDecimalBig().QuoInt(n1, n2), nil"))
mut("c04-float-via-setfloat", ["C04"], "C04.no-binary-float", (R, "\tcase float64:\n\t\t// 避免精度损失\n\t\tnStr := strconv.FormatFloat(float64(n), 'f', -1, 64)\n\t\tr, _ := newDecimalBig().SetString(nStr)\n\t\treturn r, nil", "\tcase float64:\n\t\treturn newDecimalBig().SetFloat64(n), nil"))
mut("c04-float-fixed-precision", ["C04"], "C04.no-binary-float", (R, "\tcase float64:\n\t\t// 避免精度损失\n\t\tnStr := strconv.FormatFloat(float64(n), 'f', -1, 64)", "\tcase float64:\n\t\t// 避免精度损失\n\t\tnStr := strconv.FormatFloat(float64(n), 'f', 15, 64)"))
mut("c04-int64-via-float", ["C04"], "C04.no-binary-float", (R, "\tcase int64:\n\t\treturn newDecimalBig().SetMantScale(n, 0), nil", "\tcase int64:\n\t\treturn newDecimalBig().SetFloat64(float64(n)), nil"))
mut("c04-context64", ["C04"], "C04.context", (U, "return decimal.WithContext(decimal.Context128)", "return decimal.WithContext(decimal.Context64)"))
mut("c04-literal-via-parsefloat", ["C04", "C12"], "literal", (R, "\t\tr, ok := newDecimalBig().SetString(expr.Value)\n\t\tif !ok {\n\t\t\treturn nil, fmt.Errorf(\"%s not number literal\", expr.Value)\n\t\t}\n\t\treturn r, nil", "\t\tf, err := strconv.ParseFloat(expr.Value, 64)\n\t\tif err != nil {\n\t\t\treturn nil, fmt.Errorf(\"%s not number literal\", expr.Value)\n\t\t}\n\t\treturn newDecimalBig().SetFloat64(f), nil"))

# ---------------- C05 ----------------
mut("c05-leq-strict", ["C05"], "C05.relational-predicate", (R, "return n1.Cmp(n2) <= 0, nil", "return n1.Cmp(n2) < 0, nil"))
mut("c05-gt-operands-swapped", ["C05"], "C05.relational-predicate", (R, "return n1.Cmp(n2) == 1, nil", "return n2.Cmp(n1) == 1, nil"))
mut("c05-string-geq-strict", ["C05"], "C05.relational-predicate", (R, "return s1 >= s2, nil", "return s1 > s2, nil"))
mut("c05-strict-negation-uses-loose", ["C05"], "C05.negation-pair", (R, "return !r.valueEqualTo(v1, v2), nil", "return !r.valueLikeEqualTo(v1, v2), nil"))
mut("c05-strict-without-type-gate", ["C05"], "C05.strict-same-kind", (R, "\tif reflect.TypeOf(v1) == reflect.TypeOf(v2) {", "\tif v1 != nil {"))
mut("c05-number-equality-by-text", ["C05"], "C05.equality-predicate", (R, "\t\t\tn1 := v1.(*decimal.Big)\n\t\t\tn2 := v2.(*decimal.Big)\n\t\t\treturn n1.Cmp(n2) == 0", "\t\t\tn1 := v1.(*decimal.Big)\n\t\t\tn2 := v2.(*decimal.Big)\n\t\t\treturn n1.String() == n2.String()"))

# ---------------- C06 ----------------
mut("c06-nan-truthy", ["C06"], "C06.truthiness-table", (R, "return n.Cmp(newDecimalBig().SetUint64(0)) != 0 && !n.IsNaN(0)", "return n.Cmp(newDecimalBig().SetUint64(0)) != 0"))
mut("c06-one-char-string-falsy", ["C06"], "C06.truthiness-table", (R, "\t\treturn len(n) > 0", "\t\treturn len(n) > 1"))
mut("c06-or-returns-bool", ["C06"], "C06.operand-returned", (R, "\tif !r.toBool(v1) {\n\t\treturn v2, nil\n\t} else {\n\t\treturn v1, nil\n\t}", "\tif !r.toBool(v1) {\n\t\treturn v2, nil\n\t} else {\n\t\treturn r.toBool(v1), nil\n\t}"))
mut("c06-and-polarity", ["C06"], "C06.operand-returned", (R, "\tif r.toBool(v1) {\n\t\treturn v2, nil\n\t} else {\n\t\treturn v1, nil\n\t}", "\tif r.toBool(v1) {\n\t\treturn v1, nil\n\t} else {\n\t\treturn v2, nil\n\t}"))
mut("c06-nullish-on-falsy", ["C06"], "C06.operand-returned", (R, "\tif IsNull(v1) {\n\t\treturn v2, nil\n\t} else {\n\t\treturn v1, nil\n\t}", "\tif !r.toBool(v1) {\n\t\treturn v2, nil\n\t} else {\n\t\treturn v1, nil\n\t}"))
mut("c06-conditional-eager-true-branch", ["C06"], "C06.one-branch", (R, "\tif r.toBool(cond) {\n\t\tv, err := r.resolve(ctx, expr.WhenTrue)\n\t\tif err != nil {\n\t\t\treturn nil, err\n\t\t}\n\t\treturn v, nil\n\t} else {", "\tv, err := r.resolve(ctx, expr.WhenTrue)\n\tif r.toBool(cond) {\n\t\tif err != nil {\n\t\t\treturn nil, err\n\t\t}\n\t\treturn v, nil\n\t} else {"))
mut("c06-not-of-number-keeps-truthiness", ["C06"], "C06.not", (R, "\t\treturn !r.toBool(n), nil", "\t\treturn r.toBool(n), nil"))
mut("c06-nil-slices-are-null", ["C06", "C16"], "null-definition", (U, "\tif vi.Kind() == reflect.Ptr {\n\t\treturn vi.IsNil()\n\t}", "\tswitch vi.Kind() {\n\tcase reflect.Ptr, reflect.Map, reflect.Slice:\n\t\treturn vi.IsNil()\n\t}"))

# ---------------- C07 ----------------
mut("c07-neg-in-place", ["C07"], "C07.fresh-results", (R, "return newDecimalBig().Neg(n), nil", "return n.Neg(n), nil"))
mut("c07-toint-in-place", ["C07"], "C07.fresh-results", (R, "\tn := convToNumber(v)\n\tiv, _ := n.Int64()\n\treturn newDecimalBig().SetFloat64(float64(iv)), nil", "\tn := convToNumber(v)\n\tiv, _ := n.Int64()\n\treturn n.SetFloat64(float64(iv)), nil"))
mut("c07-dollar-anywhere", ["C07"], "C07.guarded-binding", (R, "if !strings.HasPrefix(identifierValue, \"$\") {", "if !strings.Contains(identifierValue, \"$\") {"))
mut("c07-bind-float-normalised", ["C07"], "C07.guarded-binding", (R, "\tr.SetThisValue(identifierValue, v2)\n\treturn v2, nil", "\tr.SetThisValue(identifierValue, try2Float64(v2))\n\treturn v2, nil"))
mut("c07-right-before-left", ["C07"], "C07.order", (R, "\tv1, err := r.resolve(ctx, expr.Left)\n\tif err != nil {\n\t\treturn nil, err\n\t}\n\tv2, err := r.resolve(ctx, expr.Right)\n\tif err != nil {\n\t\treturn nil, err\n\t}", "\tv2, err := r.resolve(ctx, expr.Right)\n\tif err != nil {\n\t\treturn nil, err\n\t}\n\tv1, err := r.resolve(ctx, expr.Left)\n\tif err != nil {\n\t\treturn nil, err\n\t}"))
mut("c07-comma-yields-left", ["C07"], "C07.order", (R, "func (r *Runner) resolveCommaBinaryExpression(_, v2 interface{}) (interface{}, error) {\n\treturn v2, nil", "func (r *Runner) resolveCommaBinaryExpression(v1, _ interface{}) (interface{}, error) {\n\treturn v1, nil"))
mut("c07-builtin-deletes-from-caller-map", ["C07"], "C07.no-data-writes", (R, "\t\tresult = append(result, v[key])\n\t}\n\treturn result, nil", "\t\tresult = append(result, v[key])\n\t\tdelete(v, key)\n\t}\n\treturn result, nil"))
mut("c07-non-dollar-entry-written", ["C07"], "C07.guarded-binding", (R, "\tif v, ok := innerMap.Load(expr.Value); ok {\n\t\treturn v, nil\n\t}\n\treturn r.this[expr.Value], nil", "\tif v, ok := innerMap.Load(expr.Value); ok {\n\t\treturn v, nil\n\t}\n\tif _, ok := r.this[expr.Value]; !ok && r.this != nil {\n\t\tr.this[expr.Value] = nil\n\t}\n\treturn r.this[expr.Value], nil"))

# ---------------- C08 / C09 ----------------
mut("c08-message-template-written", ["C08", "C09"], "no-global-write", (U, "\tvar text = msg.Message\n\tif len(args) > 0 {\n\t\ttext = formatStringFromArgs(text, args...)\n\t}", "\tif len(args) > 0 {\n\t\tmsg.Message = formatStringFromArgs(msg.Message, args...)\n\t}\n\tvar text = msg.Message"))
mut("c08-keyword-cache", ["C08", "C09"], "no-global-write", (T, "\ttok, ok := keywords[text]\n\tif ok {\n\t\treturn tok\n\t}\n\treturn SK_Unknown", "\ttok, ok := keywords[text]\n\tif ok {\n\t\treturn tok\n\t}\n\tkeywords[text] = SK_Identifier\n\treturn SK_Identifier"))
mut("c08-parent-links-during-evaluation", ["C08", "C09"], "tree-immutable", (R, "func (r *Runner) resolveParenthesizedExpression(ctx context.Context, expr *ParenthesizedExpression) (interface{}, error) {\n", "func (r *Runner) resolveParenthesizedExpression(ctx context.Context, expr *ParenthesizedExpression) (interface{}, error) {\n\texpr.Expression.SetParent(expr)\n"))
mut("c08-line-starts-from-analysis", ["C08", "C09"], "tree-immutable", (RS, "func ResolveReferenceFields(source *SourceCode) ([]string, error) {\n", "func ResolveReferenceFields(source *SourceCode) ([]string, error) {\n\t_ = GetLineStarts(source)\n"))
mut("c08-clock-in-date", ["C08"], "C08.ambient-inputs", (R, "\treturn time.Date(y, time.Month(m), d, 0, 0, 0, 0, time.Local), nil", "\tif y == 0 {\n\t\ty = time.Now().Year()\n\t}\n\treturn time.Date(y, time.Month(m), d, 0, 0, 0, 0, time.Local), nil"))
mut("c08-first-map-entry-wins", ["C08"], "C08.map-order", (R, "func funMapToArr(m []map[string]any, key string) ([]any, error) {\n\tvar result []any\n\tfor _, v := range m {\n\t\tresult = append(result, v[key])\n\t}", "func funMapToArr(m []map[string]any, key string) ([]any, error) {\n\tvar result []any\n\tfor _, v := range m {\n\t\tfor k, x := range v {\n\t\t\tif strings.EqualFold(k, key) {\n\t\t\t\tresult = append(result, x)\n\t\t\t}\n\t\t}\n\t}"))
mut("c09-goroutine-per-argument", ["C09"], "C09.no-internal-concurrency", (R, "\t\t\targs = append(args, av)\n", "\t\t\targs = append(args, av)\n\t\t\tgo func() { _ = av }()\n"))
mut("c09-registry-late-store", ["C09", "C08"], "", (R, "\tif v, ok := innerMap.Load(expr.Value); ok {\n\t\treturn v, nil\n\t}", "\tif v, ok := innerMap.Load(expr.Value); ok {\n\t\treturn v, nil\n\t}\n\tif expr.Value == \"pi\" {\n\t\tinnerMap.Store(\"pi\", 3)\n\t}"))

# ---------------- C10 ----------------
mut("c10-true-branch-not-visited", ["C10"], "C10.child-coverage", (RS, "\terr = r.resolve(v.WhenTrue)\n\tif err != nil {\n\t\treturn err\n\t}\n", ""))
mut("c10-first-argument-skipped", ["C10"], "C10.child-coverage", (RS, "\t\tfor i := 0; i < v.Arguments.Len(); i++ {", "\t\tfor i := 1; i < v.Arguments.Len(); i++ {"))
mut("c10-callee-visited", ["C10"], "C10.child-coverage", (RS, "func (r *referenceResovle) resolveCallExpression(v *CallExpression) error {\n", "func (r *referenceResovle) resolveCallExpression(v *CallExpression) error {\n\tif err := r.resolve(v.Expression); err != nil {\n\t\treturn err\n\t}\n"))
mut("c10-double-dollar-filter", ["C10"], "C10.dedup-and-filter", (RS, "if !strings.HasPrefix(field, \"$\") {", "if !strings.HasPrefix(field, \"$$\") {"))
mut("c10-no-dedup", ["C10"], "C10.dedup-and-filter", (RS, "\treturn stringsUniq(resolve.fields), nil", "\treturn resolve.fields, nil"))
mut("c10-chain-reversed", ["C10"], "C10.chain", (R, "\t\tarr, err := resolveSelecotrNames(n.Expression)\n\t\tif err != nil {\n\t\t\treturn nil, err\n\t\t}\n\t\treturn append(arr, n.Name.Value), nil", "\t\tarr, err := resolveSelecotrNames(n.Expression)\n\t\tif err != nil {\n\t\t\treturn nil, err\n\t\t}\n\t\treturn append([]string{n.Name.Value}, arr...), nil"))
mut("c10-child-error-dropped", ["C10"], "C10.child-errors", (RS, "func (r *referenceResovle) resolveTypeofExpression(v *TypeOfExpression) error {\n\terr := r.resolve(v.Expression)\n\tif err != nil {\n\t\treturn err\n\t}\n\treturn nil", "func (r *referenceResovle) resolveTypeofExpression(v *TypeOfExpression) error {\n\t_ = r.resolve(v.Expression)\n\treturn nil"))
mut("c10-data-read-in-typeof", ["C10"], "C10.data-reads", (R, "\tswitch value.(type) {\n\tcase bool:\n\t\treturn \"boolean\", nil", "\tif value == nil {\n\t\tvalue = r.this[\"default\"]\n\t}\n\tswitch value.(type) {\n\tcase bool:\n\t\treturn \"boolean\", nil"))

# ---------------- C11 ----------------
mut("c11-context-not-shifted", ["C11"], "C11.target-type", (R, "targetType = funType.In(i + hasContextParam)", "targetType = funType.In(i)"))
mut("c11-variadic-boundary-off", ["C11"], "C11.target-type", (R, "if hasVariadic && i >= minArgsCount-1 {", "if hasVariadic && i >= paramCount-1 {"))
mut("c11-no-function-kind-test", ["C11"], "C11.single-call", (R, "\tif funType.Kind() != reflect.Func {\n\t\treturn nil, fmt.Errorf(\"expr %s value not is function\", name)\n\t}\n", ""))
mut("c11-spread-skips-exact-count", ["C11"], "C11.arity", (R, "\tif !hasVariadic || expr.DotDotDotToken != nil {\n\t\tif len(args) != minArgsCount {", "\tif !hasVariadic {\n\t\tif len(args) != minArgsCount {"))
mut("c11-variadic-by-slice-kind", ["C11"], "C11.variadic-source", (R, "\treturn funType.IsVariadic()", "\tn := funType.NumIn()\n\treturn n > 0 && funType.In(n-1).Kind() == reflect.Slice"))
mut("c11-null-wrapped-twice", ["C11"], "C11.no-double-wrap", (R, "\t\t\tcallArgs = append(callArgs, nilValue)", "\t\t\tcallArgs = append(callArgs, reflect.ValueOf(nilValue))"))
mut("c11-context-always-injected", ["C11"], "C11.context-injection", (R, "\tif hasContextParam == 1 {\n\t\tcallArgs = append(callArgs, reflect.ValueOf(ctx))\n\t}", "\tcallArgs = append(callArgs, reflect.ValueOf(ctx))"))
mut("c11-error-not-wrapped", ["C11"], "C11.error-wrap", (R, "\t\terr = results[1].Interface().(error)\n\t\terr = fmt.Errorf(\"call function '%s' error: %s\", name, err.Error())", "\t\terr = results[1].Interface().(error)"))
mut("c11-int16-arm-lost", ["C11"], "C11.kind-tables-agree", (R, "\t\tcase reflect.Int16:\n\t\t\treturn int16(f), nil\n", ""))

# ---------------- C12 ----------------
mut("c12-range-restarts-at-separator", ["C12"], "C12.separator-stripped", (S, "\t\t\tunderlineStart = s.pos\n\t\t\ts.pos += size\n\t\t\tstart = s.pos\n\t\t\tcontinue", "\t\t\tstart = s.pos\n\t\t\tunderlineStart = s.pos\n\t\t\ts.pos += size\n\t\t\tcontinue"))
mut("c12-identifier-check-skipped-for-exponent", ["C12"], "C12.ident-after-number", (S, "\ts.tokenValue = result\n\t// var kind = s.checkNumberSuffix()\n\ts.checkForIdentifierStartAfterNumericLiteral()", "\ts.tokenValue = result\n\t// var kind = s.checkNumberSuffix()\n\tif s.tokenFlags&TF_Scientific == 0 {\n\t\ts.checkForIdentifierStartAfterNumericLiteral()\n\t}"))
mut("c12-exponent-without-digits-silent", ["C12"], "C12.diagnostics-present", (S, "\t\tif len(finalFragment) == 0 {\n\t\t\ts.error(M_Digit_expected)\n\t\t} else {", "\t\tif len(finalFragment) == 0 {\n\t\t\ts.pos = end\n\t\t} else {"))
mut("c12-double-separator-silent", ["C12"], "C12.diagnostics-present", (S, "\t\t\t} else if isPreviousTokenSeparator {\n\t\t\t\ts.errorAtPos(M_Multiple_consecutive_numeric_separators_are_not_permitted, s.pos, 1)\n\t\t\t} else {\n\t\t\t\ts.errorAtPos(M_Numeric_separators_are_not_allowed_here, s.pos, 1)\n\t\t\t}\n\n\t\t\tunderlineStart", "\t\t\t} else if !isPreviousTokenSeparator {\n\t\t\t\ts.errorAtPos(M_Numeric_separators_are_not_allowed_here, s.pos, 1)\n\t\t\t}\n\n\t\t\tunderlineStart"))
mut("c12-trailing-separator-silent", ["C12"], "C12.diagnostics-present", (S, "\tif isPreviousTokenSeparator {\n\t\ts.errorAtPos(M_Numeric_separators_are_not_allowed_here, underlineStart, 1)\n\t}\n\n\tresult.Write(s.text[start:s.pos])\n\treturn result.String()", "\t_ = underlineStart\n\tresult.Write(s.text[start:s.pos])\n\treturn result.String()"))
mut("c12-identifier-diagnostic-inverted", ["C12"], "C12.ident-after-number", (S, "\tif !s.isIdentifierStart(ch) {\n\t\treturn\n\t}\n\n\tvar identifierStart", "\tif s.isIdentifierStart(ch) {\n\t\treturn\n\t}\n\n\tvar identifierStart"))

mut("c12-exponent-sign-lost-on-reassembly", ["C12"], "C12.separator-stripped", (S, "\t\tif tar := s.peekCheck(0, func(ch rune) bool { return ch == '+' || ch == '-' }); tar >= 0 {\n\t\t\ts.pos = tar\n\t\t}\n\n\t\tvar preNumericPart = s.pos\n", "\t\tvar preNumericPart = s.pos\n\t\tif tar := s.peekCheck(0, func(ch rune) bool { return ch == '+' || ch == '-' }); tar >= 0 {\n\t\t\ts.pos = tar\n\t\t}\n\n"))

# ---------------- C13 ----------------
mut("c13-escape-b-is-bell", ["C13"], "C13.escape-table", (S, "\tcase 'b':\n\t\treturn \"\\b\"", "\tcase 'b':\n\t\treturn \"\\a\""))
mut("c13-escape-v-missing", ["C13"], "C13.escape-table", (S, "\tcase 'v':\n\t\treturn \"\\v\"\n", ""))
mut("c13-hex-escape-as-decimal-text", ["C13"], "C13.hex-escape-text", (S, "\t\treturn string(rune(escapedValue))", "\t\treturn strconv.Itoa(escapedValue)"))
mut("c13-unicode-escape-two-digits", ["C13"], "C13.hex-escape-text", (S, "\t\treturn s.scanHexadecimalEscape(4)", "\t\treturn s.scanHexadecimalEscape(2)"))
mut("c13-unterminated-at-eof-silent", ["C13"], "C13.unterminated", (S, "\t\t\tcontents.Write(s.text[start:s.pos])\n\t\t\ts.error(M_Unexpected_end_of_text)\n\t\t\tbreak", "\t\t\tcontents.Write(s.text[start:s.pos])\n\t\t\tbreak"))
mut("c13-closing-quote-not-consumed", ["C13"], "C13.unterminated", (S, "\t\tif ch == quote {\n\t\t\tcontents.Write(s.text[start:s.pos])\n\t\t\ts.pos += size\n\t\t\tbreak", "\t\tif ch == quote {\n\t\t\tcontents.Write(s.text[start:s.pos])\n\t\t\tbreak"))
mut("c13-signed-parse-of-exact-width", ["C13"], "C13.hex-escape-text", (S, "strconv.ParseInt(valueString, 16, 64)", "strconv.ParseInt(valueString, 16, 4*count)"))
mut("c13-literal-value-trimmed", ["C13"], "C13.value-verbatim", (R, "func (r *Runner) resolveStringLiteralExpression(expr *LiteralExpression) (interface{}, error) {\n\treturn expr.Value, nil", "func (r *Runner) resolveStringLiteralExpression(expr *LiteralExpression) (interface{}, error) {\n\treturn strings.TrimSpace(expr.Value), nil"))

# ---------------- C14 ----------------
mut("c14-not-equals-before-strict", ["C14"], "C14.l", (S, "\t\t\tif tar := s.peekEqual(1, '='); tar >= 0 {\n\t\t\t\tif tar := s.peekEqual(2, '='); tar >= 0 {\n\t\t\t\t\ts.pos = tar\n\t\t\t\t\ts.token = SK_ExclamationEqualsEquals\n\t\t\t\t\treturn s.token\n\t\t\t\t}\n", "\t\t\tif tar := s.peekEqual(1, '='); tar >= 0 {\n"))
mut("c14-question-question-peek-distance", ["C14"], "C14.l", (S, "if tar := s.peekEqual(1, '?'); tar >= 0 {", "if tar := s.peekEqual(2, '?'); tar >= 0 {"))
mut("c14-ampersand-advance-one", ["C14"], "C14.lexeme-advance", (S, "\t\t\tif tar := s.peekEqual(1, '&'); tar >= 0 {\n\t\t\t\ts.pos = tar", "\t\t\tif tar := s.peekEqual(1, '&'); tar >= 0 {\n\t\t\t\ts.pos += size"))
mut("c14-hex-branch-returns-unstored-token", ["C14"], "C14.returns-stored-token", (S, "\t\t\t\t\ts.token = SK_NumberLiteral\n\t\t\t\t\treturn s.token", "\t\t\t\t\treturn SK_NumberLiteral"))
mut("c14-part-class-from-start-table", ["C14"], "C14.class-tables", (S, "ch > unicode.MaxASCII && LookupInUnicodeMap(ch, unicodeES5IdentifierPart)", "ch > unicode.MaxASCII && LookupInUnicodeMap(ch, unicodeES5IdentifierStart)"))
mut("c14-carriage-return-no-flag", ["C14"], "C14.fastpath-agrees", (S, "\t\tcase '\\n', '\\r':\n\t\t\ts.tokenFlags |= TF_PrecedingLineBreak\n\t\t\ts.pos += size\n\t\t\tcontinue\n\t\tcase '\\t', '\\v', '\\f', ' ':", "\t\tcase '\\n':\n\t\t\ts.tokenFlags |= TF_PrecedingLineBreak\n\t\t\ts.pos += size\n\t\t\tcontinue\n\t\tcase '\\t', '\\v', '\\f', ' ', '\\r':"))
mut("c14-flags-not-reset", ["C14"], "C14.linebreak-flag", (S, "\ts.startPos = s.pos\n\ts.tokenFlags = TF_None\n\tfor {", "\ts.startPos = s.pos\n\tfor {"))
mut("c14-keyword-range-short", ["C14"], "C14.keywords", (T, "for i := SK_FirstKeyword; i <= SK_LastKeyword; i++ {", "for i := SK_FirstKeyword; i < SK_LastKeyword; i++ {"))
mut("c14-dollar-not-identifier", ["C14"], "C14.ascii-identifier-class", (S, "func IsIdentifierStart(ch rune) bool {\n\treturn ch >= 'A' && ch <= 'Z' ||\n\t\tch >= 'a' && ch <= 'z' ||\n\t\tch == '$' || ch == '_' ||", "func IsIdentifierStart(ch rune) bool {\n\treturn ch >= 'A' && ch <= 'Z' ||\n\t\tch >= 'a' && ch <= 'z' ||\n\t\tch == '_' ||"))

# ---------------- C15 ----------------
mut("c15-start-after-operator", ["C15"], "C15.start-before-consume", (P, "func (p *Parser) parsePrefixUnaryExpression() *PrefixUnaryExpression {\n\tvar pos = p.getNodePos()\n\tvar node = new(PrefixUnaryExpression)\n\tnode.Operator = p.parseToken()", "func (p *Parser) parsePrefixUnaryExpression() *PrefixUnaryExpression {\n\tvar node = new(PrefixUnaryExpression)\n\tnode.Operator = p.parseToken()\n\tvar pos = p.getNodePos()"))
mut("c15-last-diagnostic-reported", ["C15"], "C15.first-diagnostic", (P, "err = errors.New(FormatDiagnostic(source, source.Diagnostics[0]))", "err = errors.New(FormatDiagnostic(source, source.Diagnostics[len(source.Diagnostics)-1]))"))
mut("c15-crlf-guard-on-next-index", ["C15"], "C15.guard-matches-use", (S, "if pos < len(text) && text[pos] == '\\n' {", "if pos+1 < len(text) && text[pos] == '\\n' {"))
mut("c15-nel-not-a-line-break", ["C15"], "C15.linebreak-set", (S, "\t\tch == Uni_LineSeparator || ch == Uni_ParagraphSeparator ||\n\t\tch == Uni_NextLine\n}", "\t\tch == Uni_LineSeparator || ch == Uni_ParagraphSeparator\n}"))
mut("c15-eof-rejected-by-panic", ["C15"], "C15.rejection-by-diagnostic", (P, "\tif p.token() != SK_EndOfFile {\n\t\tp.errorAtCurrentToken(M_0_expected, \"end of text\")\n\t}", "\tassertMsg(p.token() == SK_EndOfFile, \"End of file not reached\")"))
mut("c15-range-not-set-for-typeof", ["C15"], "C15.range-set", (P, "\tnode.Expression = p.parseSimpleUnaryExpression()\n\treturn finishNode(p, node, pos)\n}\n\nfunc (p *Parser) parseUnaryExpression()", "\tnode.Expression = p.parseSimpleUnaryExpression()\n\t_ = pos\n\treturn node\n}\n\nfunc (p *Parser) parseUnaryExpression()"))

mut("c15-speculation-forgets-start", ["C15"], "C15.speculation-restores-state", (S, "\t\ts.startPos = startPos\n", "\t\t_ = startPos\n"))
mut("c15-crlf-guard-len-minus-one", ["C15"], "C15.guard-matches-use", (S, "if pos < len(text) && text[pos] == '\\n' {", "if pos < len(text)-1 && text[pos] == '\\n' {"))

# ---------------- C16 ----------------
mut("c16-assert-or", ["C16"], "C16.null-safe", (R, "if IsNull(v) && expr.Assert {", "if IsNull(v) || expr.Assert {"))
mut("c16-data-before-builtins", ["C16"], "C16.lookup-order", (R, "\tif v, ok := innerMap.Load(expr.Value); ok {\n\t\treturn v, nil\n\t}\n\treturn r.this[expr.Value], nil", "\tif v, ok := r.this[expr.Value]; ok {\n\t\treturn v, nil\n\t}\n\tv, _ := innerMap.Load(expr.Value)\n\treturn v, nil"))
mut("c16-int32-not-normalised", ["C16"], "C16.normalise-everywhere", (R, "\tcase int32:\n\t\treturn newDecimalBig().SetFloat64(float64(n)), nil", "\tcase int32:\n\t\treturn n, nil"))
mut("c16-struct-field-titled", ["C16"], "C16.kinds", (R, "field := rv.FieldByName(key)", "field := rv.FieldByName(strings.Title(key))"))
mut("c16-assert-sticky-in-chain", ["C16"], "C16.assert-flag-origin", (P, "\tfor {\n\t\t// Must on same line\n\t\tif p.scanner.HasPrecedingLineBreak() {\n\t\t\tbreak\n\t\t}\n\n\t\tdotToken := p.gotToken(SK_Dot)\n\t\tvar exclamationDot *TokenNode\n\t\tif dotToken == nil {", "\tvar exclamationDot *TokenNode\n\tfor {\n\t\t// Must on same line\n\t\tif p.scanner.HasPrecedingLineBreak() {\n\t\t\tbreak\n\t\t}\n\n\t\tdotToken := p.gotToken(SK_Dot)\n\t\tif dotToken == nil {"))
mut("c16-selector-result-not-nil-normalised", ["C16"], "C16.null-safe", (R, "\treturn formatNilValue(value), nil", "\treturn value, nil"))

# ---------------- C17 / C18 / C19 ----------------
mut("c17-find-last-index", ["C17"], "C17.antonyms", (R, "func funFind(s string, substr string) (int, error) {\n\treturn strings.Index(s, substr), nil", "func funFind(s string, substr string) (int, error) {\n\treturn strings.LastIndex(s, substr), nil"))
mut("c17-replace-first-only", ["C17"], "C17.shapes", (R, "return strings.ReplaceAll(s, old, new), nil", "return strings.Replace(s, old, new, 1), nil"))
mut("c17-trim-left-only", ["C17"], "C17.antonyms", (R, "return strings.TrimSpace(s), nil", "return strings.TrimLeft(s, \" \\t\\n\"), nil"))
mut("c17-upper-lower-swapped-registration", ["C17"], "C17.antonyms", (R, "\tinnerMap.Store(\"lower\", funLower)\n\tinnerMap.Store(\"upper\", funUpper)", "\tinnerMap.Store(\"lower\", funUpper)\n\tinnerMap.Store(\"upper\", funLower)"))
mut("c17-contains-arguments-swapped", ["C17"], "C17.shapes", (R, "return strings.Contains(s, substr), nil", "return strings.Contains(substr, s), nil"))
mut("c17-rpad-pads-left", ["C17"], "C17.shapes", (R, "\treturn s + strings.Repeat(ps, l-len(s)), nil", "\treturn strings.Repeat(ps, l-len(s)) + s, nil"))
mut("c17-endwith-first-index", ["C17"], "C17.first-occurrence-suffix", (R, "return strings.HasSuffix(s, substr), nil", "return strings.Index(s, substr) == len(s)-len(substr), nil"))
mut("c17-join-ignores-separator", ["C17"], "C17.param-relevance", (R, "return strings.Join(arr, join), nil", "return strings.Join(arr, \",\"), nil"))
mut("c17-mid-not-registered", ["C17"], "C17.registered", (R, "\tinnerMap.Store(\"mid\", funMid)\n", ""))
mut("c18-round-ignores-argument", ["C18"], "C18.param-relevance", (R, "return newDecimalBig().Copy(v).RoundToInt(), nil", "return newDecimalBig().RoundToInt(), nil"))
mut("c18-ln-is-log10", ["C18"], "C18.antonyms", (R, "func funLn(v *decimal.Big) (*decimal.Big, error) {\n\tresult := newDecimalBig()\n\tdecimal.Context64.Log(result, v)", "func funLn(v *decimal.Big) (*decimal.Big, error) {\n\tresult := newDecimalBig()\n\tdecimal.Context64.Log10(result, v)"))
mut("c18-ceil-is-floor", ["C18"], "C18.antonyms", (R, "func funCeil(v *decimal.Big) (*decimal.Big, error) {\n\tresult := newDecimalBig()\n\tdecimal.Context64.Ceil(result, v)", "func funCeil(v *decimal.Big) (*decimal.Big, error) {\n\tresult := newDecimalBig()\n\tdecimal.Context64.Floor(result, v)"))
mut("c18-max-keeps-smaller", ["C18"], "C18.antonyms", (R, "\t\tif v.Cmp(max) > 0 {", "\t\tif v.Cmp(max) < 0 {"))
mut("c18-tilde-identity", ["C18"], "C18.bit-op", (R, "return newDecimalBig().SetMantScale(^iv, 0), nil", "return newDecimalBig().SetMantScale(iv, 0), nil"))
mut("c18-caret-is-or", ["C18"], "C18.bit-op", (R, "return newDecimalBig().SetFloat64(float64(i1 ^ i2)), nil", "return newDecimalBig().SetFloat64(float64(i1 | i2)), nil"))
mut("c18-min-max-swapped-registration", ["C18"], "C18.antonyms", (R, "\tinnerMap.Store(\"max\", funMax)\n\tinnerMap.Store(\"min\", funMin)", "\tinnerMap.Store(\"max\", funMin)\n\tinnerMap.Store(\"min\", funMax)"))
mut("c19-date-month-day-swapped", ["C19"], "C19.wiring", (R, "func funDate(y, m, d int) (time.Time, error) {\n\treturn time.Date(y, time.Month(m), d, 0, 0, 0, 0, time.Local), nil", "func funDate(y, m, d int) (time.Time, error) {\n\treturn time.Date(y, time.Month(d), m, 0, 0, 0, 0, time.Local), nil"))
mut("c19-date-in-utc", ["C19"], "C19.wiring", (R, "func funDate(y, m, d int) (time.Time, error) {\n\treturn time.Date(y, time.Month(m), d, 0, 0, 0, 0, time.Local), nil", "func funDate(y, m, d int) (time.Time, error) {\n\treturn time.Date(y, time.Month(m), d, 0, 0, 0, 0, time.UTC), nil"))
mut("c19-month-zero-based", ["C19"], "C19.wiring", (R, "\treturn int(date.Month()), nil", "\treturn int(date.Month()) - 1, nil"))
mut("c19-weekday-of-utc", ["C19"], "C19.wiring", (R, "\treturn int(date.Weekday()), nil", "\treturn int(date.UTC().Weekday()), nil"))
mut("c19-millis-in-seconds", ["C19"], "C19.wiring", (R, "\treturn date.UnixNano() / 1e6, nil", "\treturn date.UnixNano() / 1e9, nil"))
mut("c19-adddate-months-days-swapped", ["C19"], "C19.wiring", (R, "\treturn date.AddDate(y, m, d), nil", "\treturn date.AddDate(y, d, m), nil"))
mut("c19-timezone-error-swallowed", ["C19"], "C19.wiring", (R, "\tif err != nil {\n\t\treturn time.Time{}, err\n\t}\n\treturn date.In(location), nil", "\tif err != nil {\n\t\treturn date, nil\n\t}\n\treturn date.In(location), nil"))
mut("c19-today-reads-clock-twice", ["C19"], "C19.wiring", (R, "\treturn time.Date(now.Year(), now.Month(), now.Day(), 0, 0, 0, 0, time.Local), nil", "\treturn time.Date(now.Year(), now.Month(), time.Now().Day(), 0, 0, 0, 0, time.Local), nil"))
mut("c19-hour-minute-swapped-registration", ["C19"], "C19.wiring", (R, "\tinnerMap.Store(\"hour\", funHour)\n\tinnerMap.Store(\"minute\", funMinute)", "\tinnerMap.Store(\"hour\", funMinute)\n\tinnerMap.Store(\"minute\", funHour)"))

mut("c17-endwith-lastindex-unguarded", ["C17"], "C17.first-occurrence-suffix", (R, "return strings.HasSuffix(s, substr), nil", "return strings.LastIndex(s, substr) == len(s)-len(substr), nil"))
mut("c17-lpad-rune-count", ["C17"], "C17.shapes", (R, "\treturn strings.Repeat(ps, l-len(s)) + s, nil", "\treturn strings.Repeat(ps, l-len([]rune(s))) + s, nil"))
mut("c18-max-zero-seed", ["C18"], "C18.selects-an-argument", (R, "\tmax := nums[0]\n\tfor _, v := range nums {\n\t\tif v.Cmp(max) > 0 {\n\t\t\tmax = v\n\t\t}\n\t}", "\tmax := newDecimalBig()\n\tfor _, v := range nums {\n\t\tif v.Cmp(max) > 0 {\n\t\t\tmax.Copy(v)\n\t\t}\n\t}"))
mut("c18-bitor-unsigned", ["C18"], "C18.bit-op", (R, "return newDecimalBig().SetFloat64(float64(i1 | i2)), nil", "return newDecimalBig().SetUint64(uint64(i1 | i2)), nil"))
mut("c04-mul-in-context64", ["C04"], "C04.operator-wiring", (R, "\treturn newDecimalBig().Mul(n1, n2), nil", "\tresult := newDecimalBig()\n\tdecimal.Context64.Mul(result, n1, n2)\n\treturn result, nil"))
mut("c04-whole-float-shortcut", ["C04"], "C04.no-binary-float", (R, "\tcase float64:\n\t\t// 避免精度损失\n", "\tcase float64:\n\t\tif n == float64(int64(n)) {\n\t\t\treturn newDecimalBig().SetMantScale(int64(n), 0), nil\n\t\t}\n\t\t// 避免精度损失\n"))
mut("c11-null-accepted-for-slices", ["C11"], "C11.converter-result", (R, "\tsourceValue := reflect.ValueOf(source)\n", "\tsourceValue := reflect.ValueOf(source)\n\tif !sourceValue.IsValid() {\n\t\treturn nil, nil\n\t}\n"))

mut("c18-roundbank-threshold-fifty", ["C18"], "C18.round-direction", (R, "func funRoundBank(v *decimal.Big) (*decimal.Big, error) {\n\t// the 34-digit context rounds half to even\n\treturn newDecimalBig().Copy(v).RoundToInt(), nil\n}", "func funRoundBank(v *decimal.Big) (*decimal.Big, error) {\n\tmv := newDecimalBig().Rem(v, decimal.New(1, 0))\n\tif mv.Cmp(decimal.New(5, -1)) <= 0 {\n\t\treturn funCeil(v)\n\t}\n\treturn funFloor(v)\n}"))
mut("c18-roundbank-direction-inverted", ["C18"], "C18.round-direction", (R, "func funRoundBank(v *decimal.Big) (*decimal.Big, error) {\n\t// the 34-digit context rounds half to even\n\treturn newDecimalBig().Copy(v).RoundToInt(), nil\n}", "func funRoundBank(v *decimal.Big) (*decimal.Big, error) {\n\tmv := newDecimalBig().Rem(v, decimal.New(1, 0))\n\tif mv.Cmp(decimal.New(5, 1)) < 0 {\n\t\treturn funCeil(v)\n\t}\n\treturn funFloor(v)\n}"))
mut("c16-zero-map-entry-is-null", ["C16"], "C16.kinds", (R, "\t\tif !mv.IsValid() {\n\t\t\treturn nil, nil\n\t\t}", "\t\tif !mv.IsValid() || mv.IsZero() {\n\t\t\treturn nil, nil\n\t\t}"))

# ---------------- C20 ----------------
mut("c20-setthis-merges", ["C20"], "C20.nil-map", (R, "func (r *Runner) SetThis(m map[string]interface{}) {\n\tr.this = m\n}", "func (r *Runner) SetThis(m map[string]interface{}) {\n\tif r.this == nil {\n\t\tr.this = map[string]interface{}{}\n\t}\n\tfor k, v := range m {\n\t\tr.this[k] = v\n\t}\n}"))
mut("c20-first-entry-dropped", ["C20"], "C20.nil-map", (R, "\tif r.this == nil {\n\t\tr.this = map[string]interface{}{}\n\t}\n\tr.this[key] = value", "\tif r.this == nil {\n\t\tr.this = map[string]interface{}{}\n\t\treturn\n\t}\n\tr.this[key] = value"))
mut("c20-names-fall-back-to-store", ["C20"], "C20.", (R, "\treturn r.this[expr.Value], nil\n}", "\tif v, ok := r.this[expr.Value]; ok {\n\t\treturn v, nil\n\t}\n\treturn r.Get(expr.Value), nil\n}"))
mut("c20-set-writes-data-map", ["C20"], "C20.", (R, "func (r *Runner) Set(key string, value interface{}) {\n\tr.value[key] = value", "func (r *Runner) Set(key string, value interface{}) {\n\tr.SetThisValue(key, value)"))

# ---------------- benign twins ----------------
ALL = ["*"]
ben("b-rename-local-new-precedence", ["C02", "C01"], (P, "newPrecedence", "np", True))
ben("b-precedences-times-ten", ["C02", "C06"], (P, "\t\treturn 1\n\tcase SK_AmpersandAmpersand:\n\t\treturn 2\n\tcase SK_Bar:\n\t\treturn 3\n\tcase SK_Caret:\n\t\treturn 4\n\tcase SK_Ampersand:\n\t\treturn 5", "\t\treturn 10\n\tcase SK_AmpersandAmpersand:\n\t\treturn 20\n\tcase SK_Bar:\n\t\treturn 30\n\tcase SK_Caret:\n\t\treturn 40\n\tcase SK_Ampersand:\n\t\treturn 50"), (P, "\t\tSK_ExclamationEqualsEquals:\n\t\treturn 6", "\t\tSK_ExclamationEqualsEquals:\n\t\treturn 60"), (P, "\t\tSK_GreaterThanEquals:\n\t\treturn 7", "\t\tSK_GreaterThanEquals:\n\t\treturn 70"), (P, "\t\tSK_Minus:\n\t\treturn 9", "\t\tSK_Minus:\n\t\treturn 90"), (P, "\t\tSK_Percent:\n\t\treturn 10", "\t\tSK_Percent:\n\t\treturn 100"))
ben("b-precedence-cases-reordered", ["C02"], (P, "\tcase SK_BarBar,\n\t\tSK_QuestionQuestion:\n\t\treturn 1\n\tcase SK_AmpersandAmpersand:\n\t\treturn 2", "\tcase SK_AmpersandAmpersand:\n\t\treturn 2\n\tcase SK_QuestionQuestion,\n\t\tSK_BarBar:\n\t\treturn 1"))
ben("b-climb-test-mirrored", ["C02", "C01"], (P, "var consumeCurrentOperator = newPrecedence > precedence", "var consumeCurrentOperator = precedence < newPrecedence"))
ben("b-climb-test-inline-break", ["C02", "C01"], (P, "\t\tvar consumeCurrentOperator = newPrecedence > precedence\n\n\t\tif !consumeCurrentOperator {\n\t\t\tbreak\n\t\t}", "\t\tif newPrecedence <= precedence {\n\t\t\tbreak\n\t\t}"))
ben("b-cmp-lt-zero", ["C05"], (R, "return n1.Cmp(n2) == -1, nil", "return n1.Cmp(n2) < 0, nil"))
ben("b-cmp-gt-zero", ["C05"], (R, "return n1.Cmp(n2) == 1, nil", "return n1.Cmp(n2) > 0, nil"))
ben("b-leq-as-not-one", ["C05"], (R, "return n1.Cmp(n2) <= 0, nil", "return n1.Cmp(n2) != 1, nil"))
ben("b-binary-dispatch-cases-reordered", ["C04", "C05", "C06", "C07", "C18", "C02"], (R, "\tcase SK_LessThan: // <\n\t\treturn r.resolveLessThanBinaryExpressino(v1, v2)\n\tcase SK_GreaterThan: // >\n\t\treturn r.resolveGreaterThanBinaryExpressino(v1, v2)", "\tcase SK_GreaterThan: // >\n\t\treturn r.resolveGreaterThanBinaryExpressino(v1, v2)\n\tcase SK_LessThan: // <\n\t\treturn r.resolveLessThanBinaryExpressino(v1, v2)"))
ben("b-and-early-return", ["C06", "C07"], (R, "\tif r.toBool(v1) {\n\t\treturn v2, nil\n\t} else {\n\t\treturn v1, nil\n\t}", "\tif r.toBool(v1) {\n\t\treturn v2, nil\n\t}\n\treturn v1, nil"))
ben("b-truthiness-string-nonempty", ["C06"], (R, "\t\treturn len(n) > 0", "\t\treturn n != \"\""))
ben("b-truthiness-len-not-zero", ["C06"], (R, "\t\treturn len(n) > 0", "\t\treturn len(n) != 0"))
ben("b-scan-explicit-add", ["C01", "C14"], (S, "\t\tcase '(':\n\t\t\ts.pos += size", "\t\tcase '(':\n\t\t\ts.pos = s.pos + size"))
ben("b-scan-advance-one-for-ascii", ["C01", "C14"], (S, "\t\tcase ')':\n\t\t\ts.pos += size", "\t\tcase ')':\n\t\t\ts.pos += 1"))
ben("b-isnull-pointer-alias", ["C06", "C16"], (U, "if vi.Kind() == reflect.Ptr {", "if vi.Kind() == reflect.Pointer {"))
ben("b-leading-comment-lines", ALL, (P, "package formula\n", "// a\n// b\n// c\n\npackage formula\n"), (S, "package formula\n", "// a\n// b\n// c\n\npackage formula\n"), (R, "package formula\n", "// a\n// b\n// c\n\npackage formula\n"), (RS, "package formula\n", "// a\n\npackage formula\n"), (U, "package formula\n", "// a\n\npackage formula\n"), (T, "package formula\n", "// a\n\npackage formula\n"))
ben("b-millis-unixmilli", ["C19"], (R, "\treturn date.UnixNano() / 1e6, nil", "\treturn date.UnixMilli(), nil"))
ben("b-analysis-binary-tail-call", ["C10"], (RS, "\terr := r.resolve(v.Left)\n\tif err != nil {\n\t\treturn err\n\t}\n\terr = r.resolve(v.Right)\n\tif err != nil {\n\t\treturn err\n\t}\n\treturn nil", "\tif err := r.resolve(v.Left); err != nil {\n\t\treturn err\n\t}\n\treturn r.resolve(v.Right)"))
ben("b-normaliser-extra-kind", ["C16", "C04", "C11"], (R, "\tcase int32:\n\t\treturn newDecimalBig().SetFloat64(float64(n)), nil", "\tcase int32:\n\t\treturn newDecimalBig().SetFloat64(float64(n)), nil\n\tcase int16:\n\t\treturn newDecimalBig().SetMantScale(int64(n), 0), nil"))
ben("b-new-builtin-sign", ["C17", "C18", "C19", "C08", "C09", "C03", "C07"], (R, "\tinnerMap.Store(\"finite\", funFinite)\n", "\tinnerMap.Store(\"finite\", funFinite)\n\tinnerMap.Store(\"sign\", funSign)\n"), (R, "func funFinite(v interface{}) (*decimal.Big, error) {", "func funSign(v *decimal.Big) (*decimal.Big, error) {\n\treturn newDecimalBig().SetMantScale(int64(v.Sign()), 0), nil\n}\n\nfunc funFinite(v interface{}) (*decimal.Big, error) {"))
ben("b-primary-if-chain", ["C02", "C01", "C15"], (P, "\tcase SK_OpenParen:\n\t\treturn p.parseParenthesizedExpression()\n\tcase SK_OpenBracket:\n\t\treturn p.parseArrayLiteralExpression()\n\t}\n", "\t}\n\tif p.token() == SK_OpenParen {\n\t\treturn p.parseParenthesizedExpression()\n\t}\n\tif p.token() == SK_OpenBracket {\n\t\treturn p.parseArrayLiteralExpression()\n\t}\n"))
ben("b-endwith-by-slicing", ["C17"], (R, "return strings.HasSuffix(s, substr), nil", "return len(s) >= len(substr) && s[len(s)-len(substr):] == substr, nil"))
ben("b-round-via-quantize", ["C18"], (R, "return newDecimalBig().Copy(v).RoundToInt(), nil", "return newDecimalBig().Copy(v).Quantize(0), nil"))
ben("b-tilde-xor-minus-one", ["C18"], (R, "return newDecimalBig().SetMantScale(^iv, 0), nil", "return newDecimalBig().SetMantScale(iv^-1, 0), nil"))
ben("b-recover-message-text", ["C03"], (R, "err = fmt.Errorf(\"formula evaluation failed: %v\", capture)", "err = fmt.Errorf(\"evaluation panicked: %v\", capture)"))
ben("b-setthisvalue-early-init", ["C20", "C07"], (R, "\tif r.this == nil {\n\t\tr.this = map[string]interface{}{}\n\t}\n\tr.this[key] = value", "\tif r.this == nil {\n\t\tr.this = make(map[string]interface{}, 1)\n\t}\n\tr.this[key] = value"))
ben("b-setthis-copies", ["C20"], (R, "func (r *Runner) SetThis(m map[string]interface{}) {\n\tr.this = m\n}", "func (r *Runner) SetThis(m map[string]interface{}) {\n\tr.this = make(map[string]interface{}, len(m))\n\tfor k, v := range m {\n\t\tr.this[k] = v\n\t}\n}"))
ben("b-conditional-single-return", ["C06"], (R, "\tif r.toBool(cond) {\n\t\tv, err := r.resolve(ctx, expr.WhenTrue)\n\t\tif err != nil {\n\t\t\treturn nil, err\n\t\t}\n\t\treturn v, nil\n\t} else {\n\t\tv, err := r.resolve(ctx, expr.WhenFalse)\n\t\tif err != nil {\n\t\t\treturn nil, err\n\t\t}\n\t\treturn v, nil\n\t}", "\tif r.toBool(cond) {\n\t\treturn r.resolve(ctx, expr.WhenTrue)\n\t}\n\treturn r.resolve(ctx, expr.WhenFalse)"))
ben("b-assert-test-split", ["C16"], (R, "\tif IsNull(v) && expr.Assert {\n\t\treturn nil, fmt.Errorf", "\tif expr.Assert && IsNull(v) {\n\t\treturn nil, fmt.Errorf"))
ben("b-escape-table-reordered", ["C13"], (S, "\tcase 'b':\n\t\treturn \"\\b\"\n\tcase 't':\n\t\treturn \"\\t\"", "\tcase 't':\n\t\treturn \"\\t\"\n\tcase 'b':\n\t\treturn \"\\b\""))
ben("b-hex-escape-parse-uint", ["C13"], (S, "\t\tvalue, err := strconv.ParseInt(valueString, 16, 64)", "\t\tvalue, err := strconv.ParseUint(valueString, 16, 32)"))
ben("b-endwith-lastindex-guarded", ["C17"], (R, "return strings.HasSuffix(s, substr), nil", "if len(substr) > len(s) {\n\t\treturn false, nil\n\t}\n\treturn strings.LastIndex(s, substr) == len(s)-len(substr), nil"))
ben("b-mul-as-context128-method", ["C04"], (R, "\treturn newDecimalBig().Mul(n1, n2), nil", "\tresult := newDecimalBig()\n\tdecimal.Context128.Mul(result, n1, n2)\n\treturn result, nil"))
ben("b-max-by-index", ["C18", "C03"], (R, "\tmax := nums[0]\n\tfor _, v := range nums {\n\t\tif v.Cmp(max) > 0 {\n\t\t\tmax = v\n\t\t}\n\t}\n\treturn max, nil", "\tbest := 0\n\tfor i := 1; i < len(nums); i++ {\n\t\tif nums[i].Cmp(nums[best]) > 0 {\n\t\t\tbest = i\n\t\t}\n\t}\n\treturn nums[best], nil"))
ben("b-roundbank-by-halves", ["C18"], (R, "func funRoundBank(v *decimal.Big) (*decimal.Big, error) {\n\t// the 34-digit context rounds half to even\n\treturn newDecimalBig().Copy(v).RoundToInt(), nil\n}", "func funRoundBank(v *decimal.Big) (*decimal.Big, error) {\n\tmv := newDecimalBig().Rem(newDecimalBig().Abs(v), decimal.New(1, 0))\n\tif c := mv.Cmp(decimal.New(5, 1)); c == 0 {\n\t\treturn newDecimalBig().Copy(v).RoundToInt(), nil\n\t} else if (c < 0) == (v.Sign() >= 0) {\n\t\treturn funFloor(v)\n\t}\n\treturn funCeil(v)\n}"))
ben("b-map-missing-by-kind-invalid", ["C16"], (R, "\t\tif !mv.IsValid() {\n\t\t\treturn nil, nil\n\t\t}", "\t\tif mv.Kind() == reflect.Invalid {\n\t\t\treturn nil, nil\n\t\t}"))
ben("b-line-starts-switch-to-if", ["C15", "C01"], (S, "\t\tdefault:\n\t\t\tif ch > unicode.MaxASCII && IsLineBreak(ch) {", "\t\tdefault:\n\t\t\tif IsLineBreak(ch) && ch > unicode.MaxASCII {"))

os.makedirs("/verif/selftest", exist_ok=True)
json.dump({"_comment": "generated by selftest/make_corpus.py - edit that file", "entries": E}, open("/verif/selftest/corpus.json", "w"), indent=1, ensure_ascii=False)
print(len([e for e in E if e["kind"] == "mutant"]), "mutants,", len([e for e in E if e["kind"] == "benign"]), "benign")
