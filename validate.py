#!/usr/bin/env python3
import json, sys, glob
import jsonschema
jsonschema.validate(json.load(open('/verif/MANIFEST.json')), json.load(open('/root/.vp/MANIFEST.schema.json')))
es = json.load(open('/root/.vp/EVIDENCE.schema.json'))
n = 0
for f in sorted(glob.glob('/verif/evidence/C*.json')):
    jsonschema.validate(json.load(open(f)), es); n += 1
print("manifest valid;", n, "evidence files valid")
